import TomlVerif.Lemmas.TypedGapsInsertionA
/-! C07, reading back, `toml::Value` inside a typed value, the build with `preserve_order`, part 2: the induction over
    the type grammar on the exact relation `SimX` — `core` of Lemmas/SerTyped07e.lean with `Sim` replaced by `SimX`,
    `Flavour.insertion`, and the leaf rule `good_valueX`. -/
namespace TomlVerif.Lemmas.TypedGaps
open TomlVerif TomlVerif.Model TomlVerif.Model.TomlValue TomlVerif.Model.DeRoutes TomlVerif.Model.DeTyped
open TomlVerif.Model.SerTyped TomlVerif.Model.Ser TomlVerif.Spec TomlVerif.Spec.Serde
open TomlVerif.Spec.OrderedPlain (KeysDistinct)
open TomlVerif.Lemmas.Order18 (alookup_perm keysDistinct_perm)
open TomlVerif.Lemmas.RoundTrip17 (KSorted ksorted_nodup ksorted_perm_eq sortedInsert_new)
open TomlVerif.Lemmas.SerTyped07

theorem permOfEq {α : Type} {a b : List α} (h : a = b) : a.Perm b := h ▸ List.Perm.refl _

section
variable (nm : Bytes) (cf : Nat → Nat) (fl : Flavour)

/-- the statement for one type -/
def CoreX (t : Ty) : Prop :=
  ∀ (d : Dec) (v : SVal) (x : V) (w : TV), WellTyped t d = true → serOf nm t d = some v → serValue v = .ok x →
    SimX cf x w → Good Flavour.insertion t w (normDecV (leafF cf) (f32F cf) (leafI cf) t d)

theorem core_listX (t : Ty) (ih : CoreX nm cf t) : ∀ (l : List Dec) (vs : List SVal) (xs : List V) (ws : List TV),
    l.all (WellTyped t) = true → mapO (serOf nm t) l = some vs → serSeq vs = .ok xs → SimXList cf xs ws →
    GoodList Flavour.insertion t ws (l.map (normDecV (leafF cf) (f32F cf) (leafI cf) t))
  | [], vs, xs, ws, _, hs, hx, hsim => by
    simp only [mapO, Option.some.injEq] at hs
    subst hs
    rw [serSeq_nil xs hx] at hsim
    simp only [SimXList] at hsim
    subst hsim
    simp [GoodList]
  | d :: l, vs, xs, ws, hwt, hs, hx, hsim => by
    simp only [List.all_cons, Bool.and_eq_true] at hwt
    obtain ⟨v, vs', hvs, hv, hvs'⟩ := mapO_cons _ _ _ _ hs
    subst hvs
    obtain ⟨x, xs', hxs, hx1, hx2⟩ := serSeq_cons _ _ _ hx
    subst hxs
    simp only [SimXList] at hsim
    obtain ⟨y, ws', hws, hy, hws'⟩ := hsim
    subst hws
    simp only [List.map_cons, GoodList]
    exact ⟨ih d v x y hwt.1 hv hx1 hy, core_listX t ih l vs' xs' ws' hwt.2 hvs' hx2 hws'⟩

/-- the entries `serialize_entry` adds for a map with pairwise distinct string keys: none for a `None` value -/
theorem core_pairsX (t : Ty) (ih : CoreX nm cf t) : ∀ (l : List (Bytes × Dec)) (kvs : List (SVal × SVal))
    (acc out : List (Bytes × V)),
    (l.all fun kd => WellTyped t kd.2) = true → (l.map Prod.fst).Nodup → (∀ k ∈ l.map Prod.fst, k ∉ acc.map Prod.fst) →
    mapO (fun kd : Bytes × Dec => (serOf nm t kd.2).map fun v => (SVal.str kd.1, v)) l = some kvs →
    serMap kvs acc = .ok out →
    ∃ img, out = acc ++ img ∧ ∀ es0, SimXKVs cf img es0 →
      GoodPairs Flavour.insertion t es0 ((l.filter fun kd => !isNoneDec kd.2).map fun kd : Bytes × Dec => (kd.1, normDecV (leafF cf) (f32F cf) (leafI cf) t kd.2))
  | [], kvs, acc, out, _, _, _, hs, hx => by
    simp only [mapO, Option.some.injEq] at hs
    subst hs
    simp only [serMap, Except.ok.injEq] at hx
    refine ⟨[], by simp [hx], ?_⟩
    intro es0 h
    simp only [SimXKVs] at h
    subst h
    simp [GoodPairs]
  | (k, d) :: l, kvs, acc, out, hwt, hn, hd, hs, hx => by
    simp only [List.all_cons, Bool.and_eq_true] at hwt
    simp only [List.map_cons, List.nodup_cons] at hn
    obtain ⟨kv, kvs', hkvs, hkv, hkvs'⟩ := mapO_cons _ _ _ _ hs
    subst hkvs
    simp only [Option.map_eq_some_iff] at hkv
    obtain ⟨v, hv, hkv⟩ := hkv
    subst hkv
    obtain ⟨hnone, _⟩ := serOf_isNone nm t d v hv
    unfold serMap at hx
    simp only [serKey] at hx
    split at hx
    · -- a `None` value: the entry is skipped
      have hdn : isNoneDec d = true := by rw [← hnone]; rfl
      obtain ⟨img, ho, hi⟩ := core_pairsX t ih l kvs' acc out hwt.2 hn.2 (fun k' hk' => hd k' (by simp [hk'])) hkvs' hx
      refine ⟨img, ho, ?_⟩
      intro es0 h
      simp only [List.filter_cons, hdn, Bool.not_true, Bool.false_eq_true, if_false]
      exact hi es0 h
    · rename_i hnot
      have hns : isNoneS v = false := by
        cases hq : isNoneS v with
        | false => rfl
        | true => exact absurd (isNoneS_eq v hq) (by intro e; exact hnot e)
      have hdn : isNoneDec d = false := by rw [← hnone]; exact hns
      split at hx
      · cases hx
      · rename_i x hxv
        rw [aset_new k x acc (hd k (by simp))] at hx
        obtain ⟨img, ho, hi⟩ := core_pairsX t ih l kvs' (acc ++ [(k, x)]) out hwt.2 hn.2
          (by intro k' hk' hm
              simp only [List.map_append, List.map_cons, List.map_nil, List.mem_append, List.mem_singleton] at hm
              rcases hm with hm | hm
              · exact hd k' (by simp [hk']) hm
              · subst hm; exact hn.1 hk') hkvs' hx
        refine ⟨(k, x) :: img, by simp [ho], ?_⟩
        intro es0 h
        simp only [SimXKVs] at h
        obtain ⟨y, es', he, hy, hr⟩ := h
        subst he
        simp only [List.filter_cons, hdn, Bool.not_false, if_true, List.map_cons, GoodPairs]
        exact ⟨trivial, ih d v x y hwt.1 hv hxv hy, hi es' hr⟩

/-- the closing step shared by a derived struct and a struct variant: the table `es` (entries in any order) against
the fields -/
theorem struct_finishX (fs : Fields) (fields : List (Bytes × SVal)) (out : List (Bytes × V)) (es es0 : List (Bytes × TV))
    (nds : List (Bytes × Dec))
    (hdist : (Fields.names fs).Nodup) (hkeys : fields.map Prod.fst = Fields.names fs)
    (hser : serFields fields [] = .ok out) (hp : es.Perm es0) (hsim : SimXKVs cf out es0)
    (hcore : ∀ (img : List (Bytes × V)) (es : List (Bytes × TV)), FieldsImg fields img →
      (∀ k x, (k, x) ∈ img → ∃ y, alookup k es = some y ∧ SimX cf x y) →
      (∀ k ∈ Fields.names fs, k ∉ img.map Prod.fst → alookup k es = none) → GoodFields fl fs es nds) :
    (∀ k ∈ es.map Prod.fst, fs.hasName k = true) ∧ dupField fs (es.map Prod.fst) = false ∧ GoodFields fl fs es nds := by
  obtain ⟨img, ho, himg⟩ := serFields_spec fields [] out (hkeys ▸ hdist) (by simp) hser
  simp only [List.nil_append] at ho
  subst ho
  have hk0 : es0.map Prod.fst = out.map Prod.fst := simXKVs_keys cf out es0 hsim
  have hnd_out : (out.map Prod.fst).Nodup := fieldsImg_nodup fields out himg (hkeys ▸ hdist)
  have hnd0 : (es0.map Prod.fst).Nodup := hk0 ▸ hnd_out
  have hpk : (es.map Prod.fst).Perm (es0.map Prod.fst) := hp.map Prod.fst
  have hnd : (es.map Prod.fst).Nodup := (hpk.nodup_iff).2 hnd0
  have hkd : KeysDistinct es := (keysDistinct_iff es).2 hnd
  refine ⟨?_, dupField_nodup fs _ hnd, ?_⟩
  · intro k hk
    rw [hasName_iff, ← hkeys]
    exact fieldsImg_keys fields out himg k (hk0 ▸ hpk.subset hk)
  · apply hcore out es himg
    · intro k x hm
      obtain ⟨y, hy, hs⟩ := simXKVs_mem cf out es0 hsim k x hm
      refine ⟨y, ?_, hs⟩
      rw [alookup_perm k hp hkd]
      exact alookup_of_mem es0 k y hnd0 hy
    · intro k _ hk
      apply alookup_none_of_not_mem
      intro hm
      exact hk (hk0 ▸ hpk.subset hm)


end

mutual
theorem coreX (nm : Bytes) (hnm : (nm == dtName) = false) (cf : Nat → Nat) :
    ∀ ty : Ty, WfTy ty = true → CoreX nm cf ty
  | .bool, _ => by
    unfold CoreX; intro d v x w hwt hs hx hsim
    cases d <;> simp [WellTyped] at hwt
    simp only [serOf, Option.some.injEq] at hs; subst hs
    simp only [serValue, Except.ok.injEq] at hx; subst hx
    simp only [SimX] at hsim; subst hsim
    simp only [normDecV]
    exact good_scalar Flavour.insertion .bool rfl _ _ rfl
  | .int lo hi, _ => by
    unfold CoreX; intro d v x w hwt hs hx hsim
    cases d <;> simp [WellTyped] at hwt
    rename_i n
    simp only [serOf, Option.some.injEq] at hs; subst hs
    simp only [serValue, widthOf_not128, Bool.false_eq_true, if_false] at hx
    split at hx
    · cases hx
    · rename_i hnot
      injection hx with hx; subst hx
      simp only [SimX] at hsim; subst hsim
      simp only [normDecV]
      apply good_scalar Flavour.insertion _ rfl
      have hhi : n ≤ hi := by
        rcases hwt.2 with h | h
        · exact h
        · rw [widthOf_u64 lo hi h.1]
          simp only [h.1, beq_self_eq_true, Bool.true_and, decide_eq_true_eq] at hnot
          exact Int.not_lt.1 hnot
      simp [presValue, visitScalar, hwt.1, hhi]
  | .f64, _ => by
    unfold CoreX; intro d v x w hwt hs hx hsim
    cases d <;> simp [WellTyped] at hwt
    simp only [serOf, Option.some.injEq] at hs; subst hs
    simp only [serValue, Except.ok.injEq] at hx; subst hx
    simp only [SimX] at hsim; subst hsim
    simp only [normDecV]
    exact good_scalar Flavour.insertion .f64 rfl _ _ rfl
  | .f32, _ => by
    unfold CoreX; intro d v x w hwt hs hx hsim
    cases d <;> simp [WellTyped] at hwt
    simp only [serOf, Option.some.injEq] at hs; subst hs
    simp only [serValue, Except.ok.injEq] at hx; subst hx
    simp only [SimX] at hsim; subst hsim
    simp only [normDecV]
    exact good_scalar Flavour.insertion .f32 rfl _ _ rfl
  | .string, _ => by
    unfold CoreX; intro d v x w hwt hs hx hsim
    cases d <;> simp [WellTyped] at hwt
    simp only [serOf, Option.some.injEq] at hs; subst hs
    simp only [serValue, Except.ok.injEq] at hx; subst hx
    simp only [SimX] at hsim; subst hsim
    simp only [normDecV]
    exact good_scalar Flavour.insertion .string rfl _ _ rfl
  | .char, _ => by
    unfold CoreX; intro d v x w hwt hs hx hsim
    cases d <;> simp [WellTyped] at hwt
    rename_i s
    unfold isChar at hwt
    split at hwt
    · rename_i cp hcp
      simp only [Bool.and_eq_true, beq_iff_eq] at hwt
      simp only [serOf, hcp, Option.map_some, Option.some.injEq] at hs; subst hs
      simp only [serValue, hwt.1.2, Except.ok.injEq] at hx; subst hx
      simp only [SimX] at hsim; subst hsim
      simp only [normDecV]
      apply good_scalar Flavour.insertion .char rfl
      simp [presValue, visitScalar, hwt.2]
    · cases hwt
  | .unit, _ => by
    unfold CoreX; intro d v x w hwt hs hx hsim
    cases d <;> simp [WellTyped] at hwt
    simp only [serOf, Option.some.injEq] at hs; subst hs
    simp [serValue] at hx
  | .datetime, _ => by
    unfold CoreX; intro d v x w hwt hs hx hsim
    cases d <;> simp [WellTyped] at hwt
    rename_i dd
    simp only [serOf, Option.some.injEq] at hs; subst hs
    rw [serValue_dt dd hwt] at hx
    injection hx with hx; subst hx
    simp only [SimX] at hsim; subst hsim
    simp only [normDecV]
    exact good_datetime Flavour.insertion dd hwt
  | .date, _ => by
    unfold CoreX; intro d v x w hwt hs hx hsim
    cases d <;> simp only [WellTyped, Bool.false_eq_true, Bool.and_eq_true] at hwt
    rename_i dd
    simp only [serOf, Option.some.injEq] at hs; subst hs
    rw [serValue_dt dd hwt.1.1.1] at hx
    injection hx with hx; subst hx
    simp only [SimX] at hsim; subst hsim
    simp only [normDecV]
    exact good_date Flavour.insertion dd hwt.1.1.1 (by simp [hwt.1.1.2, hwt.1.2, hwt.2])
  | .time, _ => by
    unfold CoreX; intro d v x w hwt hs hx hsim
    cases d <;> simp only [WellTyped, Bool.false_eq_true, Bool.and_eq_true] at hwt
    rename_i dd
    simp only [serOf, Option.some.injEq] at hs; subst hs
    rw [serValue_dt dd hwt.1.1.1] at hx
    injection hx with hx; subst hx
    simp only [SimX] at hsim; subst hsim
    simp only [normDecV]
    exact good_time Flavour.insertion dd hwt.1.1.1 (by simp [hwt.1.1.2, hwt.1.2, hwt.2])
  | .value, _ => by
    unfold CoreX; intro d v x w hwt hs hx hsim
    cases d <;> simp only [WellTyped, Bool.false_eq_true] at hwt
    rename_i tv
    simp only [serOf, Option.some.injEq] at hs; subst hs
    simp only [normDecV]
    exact good_valueX cf tv hwt x w hx hsim
  | .ignored, _ => by
    unfold CoreX; intro d v x w hwt hs hx hsim
    cases d <;> simp [WellTyped] at hwt
  | .option t, hwf => by
    unfold CoreX; intro d v x w hwt hs hx hsim
    have ih := coreX nm hnm cf t (by simpa [WfTy] using hwf)
    cases d <;> simp [WellTyped] at hwt
    · simp only [serOf, Option.some.injEq] at hs; subst hs
      simp [serValue] at hx
    · rename_i d'
      simp only [serOf, Option.map_eq_some_iff] at hs
      obtain ⟨v', hv', rfl⟩ := hs
      simp only [serValue] at hx
      simp only [normDecV]
      exact good_option Flavour.insertion t w _ (ih d' v' x w hwt hv' hx hsim)
  | .newtype t, hwf => by
    unfold CoreX; intro d v x w hwt hs hx hsim
    have ih := coreX nm hnm cf t (by simpa [WfTy] using hwf)
    cases d <;> simp [WellTyped] at hwt
    rename_i d'
    simp only [serOf, Option.map_eq_some_iff] at hs
    obtain ⟨v', hv', rfl⟩ := hs
    simp only [serValue] at hx
    simp only [normDecV]
    exact good_newtype Flavour.insertion t w _ (ih d' v' x w hwt hv' hx hsim)
  | .seq t, hwf => by
    unfold CoreX; intro d v x w hwt hs hx hsim
    have ih := coreX nm hnm cf t (by simpa [WfTy] using hwf)
    cases d <;> simp only [WellTyped, Bool.false_eq_true] at hwt
    rename_i l
    simp only [serOf, Option.map_eq_some_iff] at hs
    obtain ⟨vs, hvs, rfl⟩ := hs
    simp only [serValue] at hx
    split at hx
    · rename_i xs hxs
      injection hx with hx; subst hx
      simp only [SimX] at hsim
      obtain ⟨ws, rfl, hws⟩ := hsim
      simp only [normDecV]
      exact good_seq Flavour.insertion t ws _ (core_listX nm cf t ih l vs xs ws hwt hvs hxs hws)
    · cases hx
  | .tuple ts, hwf => by
    unfold CoreX; intro d v x w hwt hs hx hsim
    cases d <;> simp only [WellTyped, Bool.false_eq_true] at hwt
    rename_i l
    simp only [serOf, Option.map_eq_some_iff] at hs
    obtain ⟨vs, hvs, rfl⟩ := hs
    simp only [serValue] at hx
    split at hx
    · rename_i xs hxs
      injection hx with hx; subst hx
      simp only [SimX] at hsim
      obtain ⟨ws, rfl, hws⟩ := hsim
      simp only [normDecV]
      exact good_tuple Flavour.insertion ts ws _
        (core_tysX nm hnm cf ts (by simpa [WfTy] using hwf) l vs xs ws hwt hvs hxs hws)
    · cases hx
  | .map t, hwf => by
    unfold CoreX; intro d v x w hwt hs hx hsim
    have ih := coreX nm hnm cf t (by simpa [WfTy] using hwf)
    cases d <;> simp only [WellTyped, Bool.false_eq_true, Bool.and_eq_true] at hwt
    rename_i l
    simp only [serOf, Option.map_eq_some_iff] at hs
    obtain ⟨kvs, hkvs, rfl⟩ := hs
    simp only [serValue] at hx
    split at hx
    · rename_i out hout
      injection hx with hx; subst hx
      simp only [SimX] at hsim
      obtain ⟨es, es0, rfl, hp, hkv⟩ := hsim
      have hp := permOfEq hp
      have hks : KSorted l := ascending_ksorted l hwt.1
      obtain ⟨img, ho, hi⟩ := core_pairsX nm cf t ih l kvs [] out hwt.2 (ksorted_nodup l hks) (by simp) hkvs hout
      simp only [List.nil_append] at ho
      subst ho
      obtain ⟨nds, hpn, hg⟩ := goodPairs_perm Flavour.insertion t hp _ (hi es0 hkv)
      have := good_map Flavour.insertion t es nds hg
      rw [collectSorted_of_sorted _ nds (ksorted_norm l _ (normDecV (leafF cf) (f32F cf) (leafI cf) t) hks) hpn] at this
      simp only [normDecV]
      exact this
    · cases hx
  | .struct fs, hwf => by
    unfold CoreX; intro d v x w hwt hs hx hsim
    simp only [WfTy, Bool.and_eq_true] at hwf
    cases d <;> simp only [WellTyped, Bool.false_eq_true] at hwt
    rename_i l
    simp only [serOf, Option.map_eq_some_iff] at hs
    obtain ⟨fields, hfields, rfl⟩ := hs
    simp only [serValue, hnm, Bool.false_eq_true, if_false] at hx
    split at hx
    · rename_i out hout
      injection hx with hx; subst hx
      simp only [SimX] at hsim
      obtain ⟨es, es0, rfl, hp, hkv⟩ := hsim
      have hp := permOfEq hp
      have hdist := distinct_nodup _ hwf.1
      obtain ⟨_, hd, hg⟩ := struct_finishX cf Flavour.insertion fs fields out es es0 (normFieldsV (leafF cf) (f32F cf) (leafI cf) fs l) hdist
        (serOfFields_keys nm fs l fields hfields) hout hp hkv
        (fun img es' himg h1 h2 => core_fieldsX nm hnm cf fs hwf.2 hdist
          l fields img es' hwt hfields himg h1 h2)
      simp only [normDecV]
      exact good_struct Flavour.insertion fs es _ hd hg
    · cases hx
  | .enum vs, hwf => by
    unfold CoreX; intro d v x w hwt hs hx hsim
    simp only [WfTy, Bool.and_eq_true] at hwf
    simp only [WellTyped] at hwt
    simp only [serOf] at hs
    simp only [normDecV]
    obtain ⟨n, hn⟩ := wellTypedVariants_name vs d hwt
    rcases core_variantsX nm hnm cf vs hwf.2 d n v x w hn hwt hs hx hsim with
      ⟨rfl, h⟩ | ⟨p, rfl, h⟩
    · exact good_enum_str Flavour.insertion vs n _ h
    · exact good_enum_tbl Flavour.insertion vs n p _ h
theorem core_tysX (nm : Bytes) (hnm : (nm == dtName) = false) (cf : Nat → Nat) :
    ∀ ts : Tys, WfTys ts = true →
      ∀ (l : List Dec) (vs : List SVal) (xs : List V) (ws : List TV), WellTypedTys ts l = true →
        serOfTys nm ts l = some vs → serSeq vs = .ok xs → SimXList cf xs ws → GoodTys Flavour.insertion ts ws (normTysV (leafF cf) (f32F cf) (leafI cf) ts l)
  | .nil, _, l, vs, xs, ws, hwt, hs, hx, hsim => by
    cases l with
    | cons _ _ => simp [WellTypedTys] at hwt
    | nil =>
      simp only [serOfTys, Option.some.injEq] at hs; subst hs
      rw [serSeq_nil xs hx] at hsim
      simp only [SimXList] at hsim; subst hsim
      simp [GoodTys, normTysV]
  | .cons t r, hwf, l, vs, xs, ws, hwt, hs, hx, hsim => by
    simp only [WfTys, Bool.and_eq_true] at hwf
    cases l with
    | nil => simp [WellTypedTys] at hwt
    | cons d l =>
      simp only [WellTypedTys, Bool.and_eq_true] at hwt
      unfold serOfTys at hs
      split at hs
      · rename_i v vs' hv1 hvs'
        injection hs with hs; subst hs
        obtain ⟨x, xs', rfl, hx1, hx2⟩ := serSeq_cons _ _ _ hx
        simp only [SimXList] at hsim
        obtain ⟨y, ws', rfl, hy, hws'⟩ := hsim
        simp only [normTysV, GoodTys]
        exact ⟨coreX nm hnm cf t hwf.1 d v x y hwt.1 hv1 hx1 hy,
          core_tysX nm hnm cf r hwf.2 l vs' xs' ws' hwt.2 hvs' hx2 hws'⟩
      · cases hs
theorem core_fieldsX (nm : Bytes) (hnm : (nm == dtName) = false) (cf : Nat → Nat) :
    ∀ fs : Fields, WfFields fs = true → (Fields.names fs).Nodup →
      ∀ (l : List (Bytes × Dec)) (fields : List (Bytes × SVal)) (img : List (Bytes × V)) (es : List (Bytes × TV)),
        WellTypedFields fs l = true → serOfFields nm fs l = some fields → FieldsImg fields img →
        (∀ k x, (k, x) ∈ img → ∃ y, alookup k es = some y ∧ SimX cf x y) →
        (∀ k ∈ Fields.names fs, k ∉ img.map Prod.fst → alookup k es = none) →
        GoodFields Flavour.insertion fs es (normFieldsV (leafF cf) (f32F cf) (leafI cf) fs l)
  | .nil, _, _, l, fields, img, es, hwt, hs, himg, h1, h2 => by
    cases l with
    | cons _ _ => simp [WellTypedFields] at hwt
    | nil => simp [GoodFields, normFieldsV]
  | .cons name t dflt r, hwf, hnd, l, fields, img, es, hwt, hs, himg, h1, h2 => by
    simp only [WfFields, Bool.and_eq_true] at hwf
    simp only [Fields.names, List.nodup_cons] at hnd
    cases l with
    | nil => simp [WellTypedFields] at hwt
    | cons kd l =>
      obtain ⟨k, d⟩ := kd
      simp only [WellTypedFields, Bool.and_eq_true] at hwt
      unfold serOfFields at hs
      split at hs
      · rename_i v vs hv1 hvs
        injection hs with hs; subst hs
        obtain ⟨hnone, hopt⟩ := serOf_isNone nm t d v hv1
        have hkeys := serOfFields_keys nm r l vs hvs
        simp only [FieldsImg] at himg
        simp only [normFieldsV, GoodFields]
        refine ⟨_, _, rfl, ?_, ?_⟩
        · split at himg
          · -- `None`: the field is skipped
            rename_i hn
            have hdn : isNoneDec d = true := by rw [← hnone]; exact hn
            obtain ⟨t', rfl⟩ := hopt hdn
            have hd := isNoneDec_eq d hdn
            subst hd
            have hnot : name ∉ img.map Prod.fst := fun hm => hnd.1 (hkeys ▸ fieldsImg_keys vs img himg name hm)
            rw [h2 name (by simp [Fields.names]) hnot]
            cases dflt with
            | true => simp [isNoneDec]
            | false => simp [isNoneDec, missingField, normDecV]
          · rename_i hn
            have hdn : isNoneDec d = false := by rw [← hnone]; simpa using hn
            obtain ⟨x, img', rfl, hx, _⟩ := himg
            obtain ⟨y, hy, hsim⟩ := h1 name x (by simp)
            rw [hy]
            simp only [hdn, Bool.and_false, Bool.false_eq_true, if_false]
            exact coreX nm hnm cf t hwf.1 d v x y hwt.1.2 hv1 hx hsim
        · split at himg
          · exact core_fieldsX nm hnm cf r hwf.2 hnd.2 l vs img es hwt.2 hvs himg h1
              (fun k' hk' hn' => h2 k' (by simp [Fields.names, hk']) hn')
          · obtain ⟨x, img', rfl, _, himg'⟩ := himg
            exact core_fieldsX nm hnm cf r hwf.2 hnd.2 l vs img' es hwt.2 hvs himg'
              (fun k' x' hm => h1 k' x' (by simp [hm]))
              (fun k' hk' hn' => h2 k' (by simp [Fields.names, hk']) (by
                simp only [List.map_cons, List.mem_cons, not_or]
                exact ⟨fun e => hnd.1 (e ▸ hk'), hn'⟩))
      · cases hs
theorem core_shapeX (nm : Bytes) (hnm : (nm == dtName) = false) (cf : Nat → Nat) :
    ∀ s : Shape, WfShape s = true →
      ∀ (name : Bytes) (d : Dec) (v : SVal) (x : V) (w : TV), WellTypedShape s d = true → variantName d = some name →
        serOfShape nm s name d = some v → serValue v = .ok x → SimX cf x w →
        (w = .str name ∧ s = .unit ∧ normShapeV (leafF cf) (f32F cf) (leafI cf) s d = .vUnit name) ∨
          (∃ p, w = .tbl [(name, p)] ∧ GoodShape Flavour.insertion s name p (normShapeV (leafF cf) (f32F cf) (leafI cf) s d))
  | .unit, _, name, d, v, x, w, hwt, hname, hs, hx, hsim => by
    cases d <;> simp [WellTypedShape] at hwt
    simp only [variantName, Option.some.injEq] at hname; subst hname
    simp only [serOfShape, Option.some.injEq] at hs; subst hs
    simp only [serValue, Except.ok.injEq] at hx; subst hx
    simp only [SimX] at hsim; subst hsim
    exact .inl ⟨rfl, rfl, by simp [normShapeV]⟩
  | .newtype t, hwf, name, d, v, x, w, hwt, hname, hs, hx, hsim => by
    cases d <;> simp only [WellTypedShape, Bool.false_eq_true] at hwt
    rename_i n d'
    simp only [variantName, Option.some.injEq] at hname; subst hname
    simp only [serOfShape, Option.map_eq_some_iff] at hs
    obtain ⟨v', hv', rfl⟩ := hs
    simp only [serValue] at hx
    split at hx
    · rename_i x' hx'
      injection hx with hx; subst hx
      simp only [SimX, SimXKVs] at hsim
      obtain ⟨es, es0, rfl, hp, y, es', rfl, hy, rfl⟩ := hsim
      have hp := permOfEq hp
      rw [List.perm_singleton.1 hp]
      refine .inr ⟨y, rfl, ?_⟩
      simp only [normShapeV, GoodShape]
      exact ⟨_, rfl, coreX nm hnm cf t (by simpa [WfShape] using hwf)
        d' v' x' y hwt hv' hx' hy⟩
    · cases hx
  | .tuple ts, hwf, name, d, v, x, w, hwt, hname, hs, hx, hsim => by
    cases d <;> simp only [WellTypedShape, Bool.false_eq_true] at hwt
    rename_i n l
    simp only [variantName, Option.some.injEq] at hname; subst hname
    simp only [serOfShape, Option.map_eq_some_iff] at hs
    obtain ⟨vs, hvs, rfl⟩ := hs
    simp only [serValue] at hx
    split at hx
    · rename_i xs hxs
      injection hx with hx; subst hx
      simp only [SimX, SimXKVs] at hsim
      obtain ⟨es, es0, rfl, hp, y, es', rfl, ⟨ws, rfl, hws⟩, rfl⟩ := hsim
      have hp := permOfEq hp
      rw [List.perm_singleton.1 hp]
      refine .inr ⟨_, rfl, ?_⟩
      simp only [normShapeV, GoodShape]
      exact ⟨ws, _, rfl, rfl, core_tysX nm hnm cf ts (by simpa [WfShape] using hwf)
        l vs xs ws hwt hvs hxs hws⟩
    · cases hx
  | .struct fs, hwf, name, d, v, x, w, hwt, hname, hs, hx, hsim => by
    simp only [WfShape, Bool.and_eq_true] at hwf
    cases d <;> simp only [WellTypedShape, Bool.false_eq_true] at hwt
    rename_i n l
    simp only [variantName, Option.some.injEq] at hname; subst hname
    simp only [serOfShape, Option.map_eq_some_iff] at hs
    obtain ⟨fields, hfields, rfl⟩ := hs
    simp only [serValue] at hx
    split at hx
    · rename_i out hout
      injection hx with hx; subst hx
      simp only [SimX, SimXKVs] at hsim
      obtain ⟨es, es0, rfl, hp, y, es', rfl, ⟨es1, es2, rfl, hp1, hkv⟩, rfl⟩ := hsim
      have hp := permOfEq hp
      have hp1 := permOfEq hp1
      rw [List.perm_singleton.1 hp]
      refine .inr ⟨_, rfl, ?_⟩
      have hdist := distinct_nodup _ hwf.1
      obtain ⟨hk, hd, hg⟩ := struct_finishX cf Flavour.insertion fs fields out es1 es2 (normFieldsV (leafF cf) (f32F cf) (leafI cf) fs l) hdist
        (serOfFields_keys nm fs l fields hfields) hout hp1 hkv
        (fun img es' himg h1 h2 => core_fieldsX nm hnm cf fs hwf.2 hdist
          l fields img es' hwt hfields himg h1 h2)
      simp only [normShapeV, GoodShape]
      exact ⟨es1, _, rfl, rfl, hk, hd, hg⟩
    · cases hx
theorem core_variantsX (nm : Bytes) (hnm : (nm == dtName) = false) (cf : Nat → Nat) :
    ∀ vs : Variants, WfVariants vs = true →
      ∀ (d : Dec) (n : Bytes) (v : SVal) (x : V) (w : TV), variantName d = some n → WellTypedVariants vs d = true →
        serOfVariants nm vs d = some v → serValue v = .ok x → SimX cf x w →
        VariantGoal Flavour.insertion vs n w (normVariantsV (leafF cf) (f32F cf) (leafI cf) vs d)
  | .nil, _, d, n, v, x, w, _, hwt, _, _, _ => by simp [WellTypedVariants] at hwt
  | .cons name s r, hwf, d, n, v, x, w, hn, hwt, hs, hx, hsim => by
    simp only [WfVariants, Bool.and_eq_true] at hwf
    have key : (if name == n then WellTypedShape s d else WellTypedVariants r d) = true →
        (if name == n then serOfShape nm s name d else serOfVariants nm r d) = some v →
        VariantGoal Flavour.insertion (.cons name s r) n w
          (if name == n then normShapeV (leafF cf) (f32F cf) (leafI cf) s d else normVariantsV (leafF cf) (f32F cf) (leafI cf) r d) := by
      intro hwt' hs'
      by_cases hnn : (name == n) = true
      · simp only [hnn, if_true] at hwt' hs' ⊢
        have hname : name = n := by simpa using hnn
        subst hname
        rcases core_shapeX nm hnm cf s hwf.1 name d v x w hwt' hn hs' hx hsim with
          ⟨rfl, rfl, hnorm⟩ | ⟨p, rfl, hg⟩
        · refine .inl ⟨rfl, ?_⟩
          rw [hnorm]
          simp [unitOnlyVariant]
        · refine .inr ⟨p, rfl, ?_⟩
          simp only [GoodVariants, beq_self_eq_true, if_true]
          exact hg
      · simp only [hnn, Bool.false_eq_true, if_false] at hwt' hs' ⊢
        rcases core_variantsX nm hnm cf r hwf.2 d n v x w hn hwt' hs' hx hsim with
          ⟨rfl, h⟩ | ⟨p, rfl, h⟩
        · refine .inl ⟨rfl, ?_⟩
          simp only [unitOnlyVariant, hnn, Bool.false_eq_true, if_false]
          exact h
        · refine .inr ⟨p, rfl, ?_⟩
          simp only [GoodVariants, hnn, Bool.false_eq_true, if_false]
          exact h
    cases d <;> simp only [variantName, Option.some.injEq] at hn <;> try (exact absurd hn (by simp))
    all_goals
      subst hn
      simp only [WellTypedVariants] at hwt
      simp only [serOfVariants] at hs
      simp only [normVariantsV]
      exact key hwt hs
end

end TomlVerif.Lemmas.TypedGaps
