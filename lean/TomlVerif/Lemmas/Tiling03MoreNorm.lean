import TomlVerif.Lemmas.SoundDoc01Complete
/-! The semantic parser does not see a BOM nor a final LF: for an accepted text `s`, the text
    without its BOM, with or without an extra final LF, decodes to the same table.  (Through the
    grammar trees of C01: the accepted text is the rendering of a well-formed `QDoc`; dropping the
    BOM flag / ending the last line with LF gives a well-formed `QDoc` with the same statements.) -/
namespace TomlVerif.Lemmas.Tiling03More
open TomlVerif TomlVerif.Spec TomlVerif.Model TomlVerif.Model.Strings TomlVerif.Model.Value
open TomlVerif.Model.State TomlVerif.Model.Doc
open TomlVerif.Spec.AstValue TomlVerif.Spec.AstValueQ TomlVerif.Spec.AstDoc TomlVerif.Spec.AstDocQ
open TomlVerif.Lemmas.Value01 TomlVerif.Lemmas.State09
open TomlVerif.Lemmas.SoundDoc01 TomlVerif.Lemmas.SoundDoc01C

theorem renderLinesQ_append : ∀ (a b : List (QLine × Bool)), renderLinesQ (a ++ b) = renderLinesQ a ++ renderLinesQ b
  | [], b => rfl
  | (l, c) :: r, b => by simp [renderLinesQ, renderLinesQ_append r b, List.append_assoc]

theorem stmtsLinesQ_append : ∀ (a b : List (QLine × Bool)), stmtsLinesQ (a ++ b) = stmtsLinesQ a ++ stmtsLinesQ b
  | [], b => rfl
  | (l, c) :: r, b => by
    simp only [List.cons_append, stmtsLinesQ, stmtsLinesQ_append r b]
    cases l.stmt <;> rfl

/-- the text without its BOM decodes to the same table -/
theorem parseDocument_stripBom (s : Bytes) (t : Tbl) (h : parseDocument s = some t) :
    parseDocument (stripBom s) = some t := by
  obtain ⟨q, hwf, hr, hrun⟩ := parseDocument_sound s t h
  have h0 : stripBom s = renderLinesQ q.lines ++ renderLastQ q.last := by rw [← hr]; exact stripBom_renderQ q hwf
  let q1 : QDoc := ⟨false, q.lines, q.last⟩
  have hwf1 : q1.WF := hwf
  have hr1 : q1.render = stripBom s := by rw [h0]; rfl
  rw [← hr1, parseDocument_renderQ q1 hwf1]
  exact hrun

/-- … also with one more LF at the end -/
theorem parseDocument_stripBom_lf (s : Bytes) (t : Tbl) (h : parseDocument s = some t) :
    parseDocument (stripBom s ++ [0x0A]) = some t := by
  obtain ⟨q, hwf, hr, hrun⟩ := parseDocument_sound s t h
  have h0 : stripBom s = renderLinesQ q.lines ++ renderLastQ q.last := by rw [← hr]; exact stripBom_renderQ q hwf
  cases hl : q.last with
  | none =>
    let q2 : QDoc := ⟨false, q.lines ++ [(.blank [], false)], none⟩
    have hwf2 : q2.WF := by
      refine ⟨?_, fun l e => by cases e⟩
      intro p hp
      rcases List.mem_append.1 hp with hp | hp
      · exact hwf.1 p hp
      · simp only [List.mem_singleton] at hp
        subst hp
        intro b hb; cases hb
    have hr2 : q2.render = stripBom s ++ [0x0A] := by
      rw [h0, hl]
      simp [QDoc.render, q2, renderLinesQ_append, renderLinesQ, renderLastQ, QLine.render, bomBytes, nlBytes]
    have hs2 : q2.stmts = q.stmts := by
      simp [QDoc.stmts, q2, stmtsLinesQ_append, stmtsLinesQ, stmtsLastQ, QLine.stmt, hl]
    rw [← hr2, parseDocument_renderQ q2 hwf2, hs2]
    exact hrun
  | some l =>
    let q2 : QDoc := ⟨false, q.lines ++ [(l, false)], none⟩
    have hwf2 : q2.WF := by
      refine ⟨?_, fun l e => by cases e⟩
      intro p hp
      rcases List.mem_append.1 hp with hp | hp
      · exact hwf.1 p hp
      · simp only [List.mem_singleton] at hp
        subst hp
        exact hwf.2 l hl
    have hr2 : q2.render = stripBom s ++ [0x0A] := by
      rw [h0, hl]
      simp [QDoc.render, q2, renderLinesQ_append, renderLinesQ, renderLastQ, bomBytes, nlBytes]
    have hs2 : q2.stmts = q.stmts := by
      simp only [QDoc.stmts, q2, stmtsLinesQ_append, stmtsLinesQ, stmtsLastQ, hl]
      cases l.stmt <;> simp
    rw [← hr2, parseDocument_renderQ q2 hwf2, hs2]
    exact hrun

end TomlVerif.Lemmas.Tiling03More
