import TomlVerif.Lemmas.DeSpanned14c
import TomlVerif.Lemmas.DeLocated15d
/-! Lemmas for Props/C14SpannedFull.lean, part 2: the induction over the wrapper grammar for `T14_spanned_transparent`. -/
namespace TomlVerif.Lemmas.DeSpanned14
open TomlVerif TomlVerif.Model TomlVerif.Model.DeTyped TomlVerif.Model.Cst TomlVerif.Model.DeLocated
open TomlVerif.Model.DeSpanned TomlVerif.Lemmas.DeLocated15 TomlVerif.Lemmas.Cst03

theorem unitShape_val (fl : TomlValue.Flavour) (n : Bytes) (p : CItem) :
    lmap (fun _ => Dec.vUnit n) (decodeLocShape fl .unit n p) = decodeLocShape fl .unit n p := by
  unfold decodeLocShape
  cases citemElems p with
  | some l => simp only []; split <;> rfl
  | none =>
    simp only []
    cases citemEntries p with
    | some es => simp only []; split <;> rfl
    | none => rfl

theorem lmap_plain_strip (x : LR Dec) : lmap stripDec (lmap SDec.plain x) = x := by
  cases x <;> rfl

theorem mapL_lmap_congr {α β γ δ} (h : β → γ) (F : List β → δ) (G : List γ → δ) (f : α → LR β) (g : α → LR γ)
    (l : List α) (hf : ∀ a ∈ l, lmap h (f a) = g a) (hFG : ∀ r, F r = G (r.map h)) :
    lmap F (mapL f l) = lmap G (mapL g l) := by
  rw [← lmap_mapL h f g l hf, lmap_lmap]
  exact lmap_congr _ _ _ hFG

mutual
theorem tr_ty (fl : TomlValue.Flavour) : ∀ (t : STy) (it : CItem), Ok t it →
    lmap stripDec (decodeSp fl t it) = decodeLoc fl (strip t) it
  | .plain t, it, _ => by
    unfold decodeSp
    simp only [strip]
    exact lmap_plain_strip _
  | .spanned t, it, h => by
    unfold Ok at h
    obtain ⟨hs, hok⟩ := h
    conv => lhs; unfold decodeSp
    cases hsp : itemSpan it with
    | none => rw [hsp] at hs; simp at hs
    | some ab =>
      obtain ⟨a, b⟩ := ab
      simp only [strip]
      rw [← tr_ty fl t it hok, lmap_lmap]
      exact lmap_congr _ _ _ fun d => by simp [stripDec]
  | .option t, it, h => by
    unfold Ok at h
    conv => lhs; unfold decodeSp
    simp only [strip]
    conv => rhs; unfold decodeLoc
    rw [← tr_ty fl t it h]
    cases decodeSp fl t it <;> rfl
  | .newtype t, it, h => by
    unfold Ok at h
    conv => lhs; unfold decodeSp
    simp only [strip]
    conv => rhs; unfold decodeLoc
    rw [← tr_ty fl t it h]
    cases decodeSp fl t it <;> rfl
  | .seq t, it, h => by
    unfold Ok at h
    conv => lhs; unfold decodeSp
    simp only [strip]
    conv => rhs; unfold decodeLoc
    rw [lmap_atSpan]
    congr 1
    cases hl : citemElems it with
    | none => rfl
    | some l =>
      simp only []
      have key := lmap_mapL stripDec (fun i => atSpan i.span (decodeSp fl t i))
        (fun i => atSpan i.span (decodeLoc fl (strip t) i)) l (fun a ha => by
          simp only [lmap_atSpan]; rw [tr_ty fl t a (h l hl a ha)])
      rw [← key, lmap_lmap, lmap_lmap]
      exact lmap_congr _ _ _ fun a => by simp [stripDec, stripDecs_eq_map]
  | .map kt t, it, h => by
    unfold Ok at h
    conv => lhs; unfold decodeSp
    simp only [strip]
    conv => rhs; unfold decodeLoc
    rw [lmap_atSpan]
    congr 1
    cases hl : locMapEntries it with
    | none => rfl
    | some es =>
      simp only []
      rw [lmap_lmap]
      refine mapL_lmap_congr (fun kd : SKey × SDec => (stripKey kd.1, stripDec kd.2)) _ _ _ _ es (fun kv hkv => ?_)
        (fun r => by simp [stripDec, stripEntries_eq_map])
      have hok := h es hl kv hkv
      have hsm := srcs_mem it es hl kv hkv
      obtain ⟨key, src⟩ := kv
      cases src with
      | item k i =>
        simp only [] at hok hsm ⊢
        obtain ⟨hko, hsp, hoki⟩ := hok
        obtain ⟨kk, hdk, hsk⟩ := decodeKey_ok k.key (keySpan k) kt hko hsp
        rw [hdk, ← tr_ty fl t i hoki]
        subst hsm
        cases decodeSp fl t i <;> simp [atSpan, lmap, inEntry, hsk]
      | str s =>
        simp only [] at hok ⊢
        obtain ⟨hkt, hso⟩ := hok
        subst hkt
        rw [← decodeStrSp_strip t s hso]
        cases decodeStrSp t s <;> simp [decodeKeyStr, lmap, liftV, rmap, stripKey, vfail]
  | .struct fs, it, h => by
    unfold Ok at h
    obtain ⟨hmiss, hent, hseq⟩ := h
    conv => lhs; unfold decodeSp
    simp only [strip]
    conv => rhs; unfold decodeLoc
    rw [lmap_atSpan]
    congr 1
    cases hl : locMapEntries it with
    | some es =>
      simp only []
      have hk : (fun k => Fields.hasName k (stripFields fs)) = (fun k => SFields.hasName k fs) :=
        funext fun k => hasName_strip k fs
      rw [hk]
      have hw := walk_strip (fun k => SFields.hasName k fs) (fun k src => decodeSpEntry fl fs k src)
        (fun k src => decodeLocEntry fl (stripFields fs) k src) es []
        (fun kv hkv => tr_entry fl fs kv.1 kv.2 (hent es hl kv hkv))
      cases hx : walkG visitorErr (fun k => SFields.hasName k fs) (fun k src => decodeSpEntry fl fs k src) [] es with
      | error e => rw [hx] at hw; simp only [lmap] at hw; rw [← hw]; rfl
      | ok ds =>
        rw [hx] at hw
        simp only [lmap] at hw
        rw [← hw]
        simp only []
        rw [← fill_strip fs ds hmiss, lmap_lmap, lmap_lmap]
        exact lmap_congr _ _ _ fun a => by simp [stripDec]
    | none =>
      simp only []
      cases hle : citemElems it with
      | none => rfl
      | some l =>
        simp only []
        rw [← tr_fseq fl fs l (hseq l hle), lmap_lmap, lmap_lmap]
        exact lmap_congr _ _ _ fun a => by simp [stripDec]
  | .enum vs, it, h => by
    unfold Ok at h
    conv => lhs; unfold decodeSp
    simp only [strip]
    conv => rhs; unfold decodeLoc
    rw [lmap_atSpan]
    congr 1
    cases he : eraseItem it with
    | value v =>
      cases v with
      | str s => simp only []; rw [lmap_liftV, unitOnlySp_strip]
      | _ =>
        simp only []
        cases hc : citemEntries it with
        | none => rfl
        | some es =>
          match es, hc with
          | [], _ => rfl
          | [(k, p)], hc => exact tr_variants fl vs k p (h k p hc)
          | _ :: _ :: _, _ => rfl
    | _ =>
      simp only []
      cases hc : citemEntries it with
      | none => rfl
      | some es =>
        match es, hc with
        | [], _ => rfl
        | [(k, p)], hc => exact tr_variants fl vs k p (h k p hc)
        | _ :: _ :: _, _ => rfl
theorem tr_entry (fl : TomlValue.Flavour) : ∀ (fs : SFields) (k : Bytes) (src : LSrc), OkEntry fs k src →
    lmap (Option.map stripDec) (decodeSpEntry fl fs k src) = decodeLocEntry fl (stripFields fs) k src
  | .nil, k, src, _ => by unfold decodeSpEntry; simp only [stripFields]; unfold decodeLocEntry; rfl
  | .cons name t dflt r, k, src, h => by
    unfold OkEntry at h
    unfold decodeSpEntry
    simp only [stripFields]
    unfold decodeLocEntry
    by_cases hn : (name == k) = true
    · simp only [hn, if_true] at h ⊢
      rw [lmap_lmap]
      cases src with
      | item key i =>
        simp only [] at h ⊢
        rw [← tr_ty fl t i h]
        cases decodeSp fl t i <;> rfl
      | str s =>
        simp only [] at h ⊢
        rw [← decodeStrSp_strip t s h]
        cases decodeStrSp t s <;> rfl
    · simp only [hn] at h ⊢
      exact tr_entry fl r k src h
theorem tr_fseq (fl : TomlValue.Flavour) : ∀ (fs : SFields) (l : List CItem), OkSeq fs l →
    lmap stripNamed (decodeSpFieldsSeq fl fs l) = decodeLocFieldsSeq fl (stripFields fs) l
  | .nil, l, _ => by unfold decodeSpFieldsSeq; simp only [stripFields]; unfold decodeLocFieldsSeq; rfl
  | .cons name t dflt r, [], h => by
    unfold OkSeq at h
    unfold decodeSpFieldsSeq
    simp only [stripFields]
    unfold decodeLocFieldsSeq
    cases dflt with
    | true =>
      simp only [if_true]
      rw [← tr_fseq fl r [] h, lmap_lmap, lmap_lmap]
      exact lmap_congr _ _ _ fun a => by simp [stripNamed, stripDec]
    | false => rfl
  | .cons name t dflt r, i :: l, h => by
    unfold OkSeq at h
    unfold decodeSpFieldsSeq
    simp only [stripFields]
    unfold decodeLocFieldsSeq
    rw [← tr_fseq fl r l h.2, ← tr_ty fl t i h.1]
    cases decodeSp fl t i <;> cases decodeSpFieldsSeq fl r l <;> simp [lcons, lmap, atSpan, stripNamed]
theorem tr_variants (fl : TomlValue.Flavour) : ∀ (vs : SVariants) (k : CKey) (p : CItem), OkVariants vs k.key p →
    lmap stripDec (decodeSpVariants fl vs k p) = decodeLocVariants fl (stripVariants vs) k p
  | .nil, k, p, _ => by unfold decodeSpVariants; simp only [stripVariants]; unfold decodeLocVariants; rfl
  | .cons name s r, k, p, h => by
    unfold OkVariants at h
    unfold decodeSpVariants
    simp only [stripVariants]
    unfold decodeLocVariants
    by_cases hn : (name == k.key) = true
    · simp only [hn, if_true] at h ⊢; exact tr_shape fl s name p h
    · simp only [hn] at h ⊢; exact tr_variants fl r k p h
theorem tr_shape (fl : TomlValue.Flavour) : ∀ (s : SShape) (n : Bytes) (p : CItem), OkShape s p →
    lmap stripDec (decodeSpShape fl s n p) = decodeLocShape fl (stripShape s) n p
  | .unit, n, p, _ => by
    unfold decodeSpShape
    simp only [stripShape]
    rw [lmap_lmap]
    simpa [stripDec] using unitShape_val fl n p
  | .newtype t, n, p, h => by
    unfold OkShape at h
    unfold decodeSpShape
    simp only [stripShape]
    conv => rhs; unfold decodeLocShape
    rw [← tr_ty fl t p h, lmap_lmap, lmap_lmap]
    exact lmap_congr _ _ _ fun d => by simp [stripDec]
end

end TomlVerif.Lemmas.DeSpanned14
