import TomlVerif.Model.Numbers
import TomlVerif.Model.Datetime
namespace TomlVerif.Lemmas.LenScalars04
open TomlVerif TomlVerif.Spec TomlVerif.Model

/-! "The rest is not longer than the input" for the scalar parsers. -/

theorem startsWith_len (p s r : Bytes) (h : Numbers.startsWith p s = some r) : r.length ≤ s.length := by
  unfold Numbers.startsWith at h
  split at h
  · injection h with h; subst h; simp [List.length_drop]
  · cases h

theorem keyword_len (kw s r : Bytes) (h : Numbers.keyword kw s = .ok () r) : r.length ≤ s.length := by
  unfold Numbers.keyword at h
  split at h
  · split at h
    · split at h
      · rename_i t ht
        injection h with h1 h2; subst h2
        exact startsWith_len _ _ _ ht
      · cases h
    · cases h
  · cases h

theorem runTail_len_aux (isD : Byte → Bool) :
    ∀ (n : Nat) (s acc ds r : Bytes), s.length ≤ n →
      Numbers.runTail isD s acc = .ok ds r → r.length ≤ s.length := by
  intro n
  induction n with
  | zero =>
    intro s acc ds r hn h
    cases s with
    | nil =>
      unfold Numbers.runTail at h
      injection h with h1 h2; subst h2; simp
    | cons b t => simp at hn
  | succ n ih =>
    intro s acc ds r hn h
    cases s with
    | nil =>
      unfold Numbers.runTail at h
      injection h with h1 h2; subst h2; simp
    | cons b t =>
      unfold Numbers.runTail at h
      simp only [List.length_cons] at hn
      split at h
      · have := ih t _ _ _ (by omega) h
        simp only [List.length_cons]; omega
      · split at h
        · cases t with
          | nil => simp at h
          | cons d t' =>
            simp only at h
            simp only [List.length_cons] at hn
            split at h
            · have := ih t' _ _ _ (by omega) h
              simp only [List.length_cons]; omega
            · cases h
        · injection h with h1 h2; subst h2; simp

theorem runTail_len (isD : Byte → Bool) (s acc ds r : Bytes)
    (h : Numbers.runTail isD s acc = .ok ds r) : r.length ≤ s.length :=
  runTail_len_aux isD s.length s acc ds r (Nat.le_refl _) h

theorem zeroPrefixableInt_len (s ds r : Bytes)
    (h : Numbers.zeroPrefixableInt s = .ok ds r) : r.length ≤ s.length := by
  unfold Numbers.zeroPrefixableInt at h
  split at h
  · split at h
    · have := runTail_len _ _ _ _ _ h
      simp only [List.length_cons]; omega
    · cases h
  · cases h

theorem decInt_len (s r : Bytes) (v : Bool × Bool × Bytes)
    (h : Numbers.decInt s = .ok v r) : r.length ≤ s.length := by
  unfold Numbers.decInt at h
  have key : ∀ (neg signed : Bool) (s' : Bytes), s'.length ≤ s.length →
      (match s' with
        | b :: r =>
          if isDigit1_9 b = true then
            (Numbers.runTail isDigit r [b]).map fun ds => (neg, signed, ds)
          else if isDigit b = true then Res.ok (neg, signed, [b]) r
          else Res.bt
        | [] => Res.bt) = Res.ok v r → r.length ≤ s.length := by
    intro neg signed s' hs' h
    split at h
    · rename_i b t
      simp only [List.length_cons] at hs'
      split at h
      · cases hx : Numbers.runTail isDigit t [b] with
        | ok ds rest =>
          rw [hx] at h
          simp only [Res.map] at h
          injection h with h1 h2; subst h2
          have := runTail_len _ _ _ _ _ hx
          omega
        | bt => rw [hx] at h; simp [Res.map] at h
        | cut => rw [hx] at h; simp [Res.map] at h
      · split at h
        · injection h with h1 h2; subst h2; omega
        · cases h
    · cases h
  split at h
  rename_i neg signed s' heq
  split at heq
  · injection heq with e1 e2; injection e2 with e2 e3; subst e3
    exact key _ _ _ (by simp) h
  · injection heq with e1 e2; injection e2 with e2 e3; subst e3
    exact key _ _ _ (by simp) h
  · injection heq with e1 e2; injection e2 with e2 e3; subst e3
    exact key _ _ _ (by simp) h

theorem prefixedInt_len (isD : Byte → Bool) (base : Nat) (s r : Bytes) (v : Int)
    (h : Numbers.prefixedInt isD base s = .ok v r) : r.length ≤ s.length := by
  unfold Numbers.prefixedInt at h
  split at h
  · split at h
    · split at h
      · rename_i ds rest hx
        simp only [] at h
        split at h
        · injection h with h1 h2; subst h2
          have := runTail_len _ _ _ _ _ hx
          simp only [List.length_cons]; omega
        · cases h
      · cases h
    · cases h
  · cases h

theorem integer_len (s r : Bytes) (v : Int) (h : Numbers.integer s = .ok v r) : r.length ≤ s.length := by
  unfold Numbers.integer at h
  split at h
  · have := prefixedInt_len _ _ _ _ _ h
    simp only [List.length_cons]; omega
  · have := prefixedInt_len _ _ _ _ _ h
    simp only [List.length_cons]; omega
  · have := prefixedInt_len _ _ _ _ _ h
    simp only [List.length_cons]; omega
  · split at h
    · rename_i neg x ds rest hx
      have := decInt_len _ _ _ hx
      simp only [] at h
      split at h <;> split at h <;>
        first | (injection h with h1 h2; subst h2; exact this) | cases h
    · cases h
    · cases h

theorem expPart_len (s r : Bytes) (v : Bool × Bytes)
    (h : Numbers.expPart s = .ok v r) : r.length ≤ s.length := by
  unfold Numbers.expPart at h
  split at h
  · rename_i c t
    split at h
    · split at h
      rename_i neg r' heq
      have hr' : r'.length ≤ t.length := by
        split at heq
        · injection heq with e1 e2; subst e2; simp
        · injection heq with e1 e2; subst e2; simp
        · injection heq with e1 e2; subst e2; simp
      split at h
      · rename_i ds rest hx
        injection h with h1 h2; subst h2
        have := zeroPrefixableInt_len _ _ _ hx
        simp only [List.length_cons]; omega
      · cases h
    · cases h
  · cases h

theorem floatLit_len (s r : Bytes) (v : Numbers.FloatLit)
    (h : Numbers.floatLit s = .ok v r) : r.length ≤ s.length := by
  unfold Numbers.floatLit at h
  split at h
  · rename_i neg x ids r0 hd
    have h0 := decInt_len _ _ _ hd
    split at h
    · rename_i r1
      simp only [List.length_cons] at h0
      split at h
      · rename_i fds r2 hz
        have h2 := zeroPrefixableInt_len _ _ _ hz
        split at h
        · rename_i en eds r3 he
          injection h with h1 h2'; subst h2'
          have := expPart_len _ _ _ he
          omega
        · injection h with h1 h2'; subst h2'; omega
        · cases h
      · cases h
    · split at h
      · rename_i en eds r3 he
        injection h with h1 h2'; subst h2'
        have := expPart_len _ _ _ he
        omega
      · cases h
      · cases h
  · cases h
  · cases h

theorem specialFloat_len (s r : Bytes) (v : Nat)
    (h : Numbers.specialFloat s = .ok v r) : r.length ≤ s.length := by
  unfold Numbers.specialFloat at h
  split at h
  rename_i neg r' heq
  have hr' : r'.length ≤ s.length := by
    split at heq
    · injection heq with e1 e2; subst e2; simp
    · injection heq with e1 e2; subst e2; simp
    · injection heq with e1 e2; subst e2; simp
  simp only [] at h
  split at h
  · rename_i t ht
    injection h with h1 h2; subst h2
    have := startsWith_len _ _ _ ht
    omega
  · split at h
    · rename_i t ht
      injection h with h1 h2; subst h2
      have := startsWith_len _ _ _ ht
      omega
    · cases h

theorem float_len (s r : Bytes) (v : Nat) (h : Numbers.float s = .ok v r) : r.length ≤ s.length := by
  unfold Numbers.float at h
  split at h
  · rename_i l rest hl
    simp only [] at h
    split at h
    · cases h
    · injection h with h1 h2; subst h2
      exact floatLit_len _ _ _ hl
  · cases h
  · exact specialFloat_len _ _ _ h

/-! ### date-time -/

theorem digits2_len (s r : Bytes) (v : Nat)
    (h : Datetime.digits2 s = some (v, r)) : r.length + 2 ≤ s.length := by
  unfold Datetime.digits2 at h
  split at h
  · split at h
    · injection h with h; injection h with h1 h2; subst h2
      simp only [List.length_cons]; omega
    · cases h
  · cases h

theorem digits4_len (s r : Bytes) (v : Nat)
    (h : Datetime.digits4 s = some (v, r)) : r.length + 4 ≤ s.length := by
  unfold Datetime.digits4 at h
  split at h
  · split at h
    · injection h with h; injection h with h1 h2; subst h2
      simp only [List.length_cons]; omega
    · cases h
  · cases h

theorem takeDigits_len (s : Bytes) : (Datetime.takeDigits s).2.length ≤ s.length := by
  induction s with
  | nil => simp [Datetime.takeDigits]
  | cons b t ih =>
    unfold Datetime.takeDigits
    split
    · cases hx : Datetime.takeDigits t with
      | mk a u =>
        rw [hx] at ih
        simp only [List.length_cons] at ih ⊢
        omega
    · simp

theorem fullDate_len (s r : Bytes) (v : Datetime.Date)
    (h : Datetime.Doc.fullDate s = .ok v r) : r.length ≤ s.length := by
  unfold Datetime.Doc.fullDate at h
  split at h
  · cases h
  · rename_i year r0 h4
    have l4 := digits4_len _ _ _ h4
    split at h
    · rename_i r1
      simp only [List.length_cons] at l4
      split at h
      · cases h
      · rename_i month r2 h2
        have l2 := digits2_len _ _ _ h2
        split at h
        · cases h
        · split at h
          · rename_i r3
            simp only [List.length_cons] at l2
            split at h
            · cases h
            · rename_i day r4 h2'
              have l2' := digits2_len _ _ _ h2'
              split at h
              · cases h
              · split at h
                · cases h
                · injection h with e1 e2; subst e2; omega
          · cases h
    · cases h

theorem secfracOpt_len (s : Bytes) : (Datetime.Doc.secfracOpt s).2.length ≤ s.length := by
  unfold Datetime.Doc.secfracOpt
  split
  · rename_i t
    have := takeDigits_len t
    split
    · simp
    · rename_i ds u hne hx
      rw [hx] at this
      simp only [List.length_cons] at this ⊢
      omega
  · simp

theorem partialTime_len (s r : Bytes) (v : Datetime.Time)
    (h : Datetime.Doc.partialTime s = .ok v r) : r.length ≤ s.length := by
  unfold Datetime.Doc.partialTime at h
  split at h
  · cases h
  · rename_i hour r0 h0
    have l0 := digits2_len _ _ _ h0
    split at h
    · cases h
    · split at h
      · rename_i r1
        simp only [List.length_cons] at l0
        split at h
        · cases h
        · rename_i minute r2 h2
          have l2 := digits2_len _ _ _ h2
          split at h
          · cases h
          · split at h
            · rename_i r3
              simp only [List.length_cons] at l2
              split at h
              · cases h
              · rename_i second r4 h4
                have l4 := digits2_len _ _ _ h4
                split at h
                · cases h
                · have ls := secfracOpt_len r4
                  cases hx : Datetime.Doc.secfracOpt r4 with
                  | mk ns r5 =>
                    rw [hx] at h ls
                    simp only [] at h ls
                    injection h with e1 e2; subst e2
                    omega
            · cases h
      · cases h

theorem timeOffset_len (s r : Bytes) (v : Datetime.Offset)
    (h : Datetime.Doc.timeOffset s = .ok v r) : r.length ≤ s.length := by
  unfold Datetime.Doc.timeOffset at h
  split at h
  · cases h
  · rename_i c t
    split at h
    · injection h with e1 e2; subst e2; simp
    · split at h
      · split at h
        · cases h
        · rename_i hh r1 h1
          have l1 := digits2_len _ _ _ h1
          split at h
          · cases h
          · split at h
            · rename_i r2
              simp only [List.length_cons] at l1
              split at h
              · cases h
              · rename_i m r3 h3
                have l3 := digits2_len _ _ _ h3
                split at h
                · cases h
                · simp only [] at h
                  split at h <;> split at h <;>
                    first | (injection h with e1 e2; subst e2; simp only [List.length_cons]; omega) | cases h
            · cases h
      · cases h

theorem dateTime_len (s r : Bytes) (v : Datetime.Datetime)
    (h : Datetime.Doc.dateTime s = .ok v r) : r.length ≤ s.length := by
  unfold Datetime.Doc.dateTime at h
  split at h
  · rename_i d r0 hd
    have ld := fullDate_len _ _ _ hd
    split at h
    · rename_i c r'
      simp only [List.length_cons] at ld
      split at h
      · split at h
        · rename_i t r'' ht
          have lt := partialTime_len _ _ _ ht
          split at h
          · rename_i o r3 ho
            have lo := timeOffset_len _ _ _ ho
            injection h with e1 e2; subst e2; omega
          · injection h with e1 e2; subst e2; omega
          · cases h
        · injection h with e1 e2; subst e2
          simp only [List.length_cons]; omega
        · cases h
      · injection h with e1 e2; subst e2
        simp only [List.length_cons]; omega
    · injection h with e1 e2; subst e2; exact ld
  · cases h
  · split at h
    · rename_i t r0 ht
      injection h with e1 e2; subst e2
      exact partialTime_len _ _ _ ht
    · cases h
    · cases h

end TomlVerif.Lemmas.LenScalars04
