import TomlVerif.Lemmas.Tiling03MoreSemMain
/-! C03, same data with `[t]` taking over an implicit table — base lemmas: the stable sort of a
    permutation with distinct positions (`sortP_pairs_perm`), a tree invariant kept by every
    `descend` (`tiTbl`: distinct keys in every table, implicit tables have no position;
    `descend_ti`), and the summary under respelled but equally printed path prefixes
    (`nsItems_congr`). -/
namespace TomlVerif.Lemmas.Tiling03More.Tko
open TomlVerif TomlVerif.Spec TomlVerif.Model TomlVerif.Model.Strings TomlVerif.Model.Value
open TomlVerif.Model.Cst TomlVerif.Model.Encode TomlVerif.Lemmas.Suffix03 TomlVerif.Lemmas.Cst03
open TomlVerif.Lemmas.LastByte03 TomlVerif.Lemmas.Tiling03 TomlVerif.Lemmas.Tiling03Hdr
open TomlVerif.Lemmas.Tiling03Nest TomlVerif.Lemmas.Tiling03More.VS

/-! ### sorting a permutation -/

theorem perm_insG {α : Type} (key : α → Nat) (e : α) : ∀ l : List α, (insG key e l).Perm (e :: l)
  | [] => List.Perm.refl _
  | x :: r => by
    rw [insG_cons]
    split
    · exact List.Perm.refl _
    · exact ((perm_insG key e r).cons x).trans (List.Perm.swap e x r)

theorem perm_sortG {α : Type} (key : α → Nat) : ∀ l : List α, (sortG key l).Perm l
  | [] => List.Perm.refl _
  | e :: r => by
    rw [sortG_cons]
    exact (perm_insG key e _).trans ((perm_sortG key r).cons e)

theorem sortG_perm {α : Type} (key : α → Nat) (l1 l2 : List α) (hp : l1.Perm l2)
    (hinj : ∀ a ∈ l1, ∀ b ∈ l1, key a = key b → a = b) : sortG key l1 = sortG key l2 := by
  apply List.Perm.eq_of_pairwise (le := fun a b => key a ≤ key b)
  · intro a b ha hb h1 h2
    have ha' : a ∈ l1 := (perm_sortG key l1).mem_iff.1 ha
    have hb' : b ∈ l1 := hp.mem_iff.2 ((perm_sortG key l2).mem_iff.1 hb)
    exact hinj a ha' b hb' (Nat.le_antisymm h1 h2)
  · exact sortedG_sortG key l1
  · exact sortedG_sortG key l2
  · exact ((perm_sortG key l1).trans hp).trans (perm_sortG key l2).symm

/-- distinct positions -/
def PosInj (N : NS) : Prop := ∀ a ∈ N, ∀ b ∈ N, a.1 = b.1 → a = b

theorem posInj_perm {N1 N2 : NS} (hp : N1.Perm N2) (h : PosInj N1) : PosInj N2 :=
  fun a ha b hb e => h a (hp.mem_iff.2 ha) b (hp.mem_iff.2 hb) e

theorem posInj_cons (e : Nat × Bool × Bytes) (N : NS) (h : PosInj N) (hlt : ∀ x ∈ N, x.1 < e.1) : PosInj (e :: N) := by
  intro a ha b hb eab
  rcases List.mem_cons.1 ha with ha | ha <;> rcases List.mem_cons.1 hb with hb | hb
  · rw [ha, hb]
  · rw [ha] at eab; have := hlt b hb; omega
  · rw [hb] at eab; have := hlt a ha; omega
  · exact h a ha b hb eab

theorem sortP_pairs_perm (N1 N2 : NS) (hp : N1.Perm N2) (hi : PosInj N1) :
    sortP (pairsN N1) = sortP (pairsN N2) := by
  unfold sortP
  apply sortG_perm
  · exact hp.map _
  · intro a ha b hb e
    obtain ⟨x, hx, ex⟩ := mem_pairsN ha
    obtain ⟨y, hy, ey⟩ := mem_pairsN hb
    subst ex; subst ey
    simp only [] at e
    rw [hi x hx y hy e]

/-! ### a tree invariant kept by `descend` -/

mutual
/-- distinct keys in every table; an implicit table carries no position -/
def tiTbl : CTbl → Bool
  | .mk items imp _ p _ _ => (!imp || p.isNone) && nodupK items && tiItems items
def tiItems : List (CKey × CItem) → Bool
  | [] => true
  | (_, it) :: r =>
    match it with
    | .table t => tiTbl t && tiItems r
    | .aot ts _ => tiAot ts && tiItems r
    | .value _ => tiItems r
def tiAot : List CTbl → Bool
  | [] => true
  | t :: r => tiTbl t && tiAot r
end

theorem tiTbl_eq (t : CTbl) : tiTbl t = ((!t.implicit || t.pos.isNone) && nodupK t.items && tiItems t.items) := by
  cases t; rw [tiTbl]; rfl

/-- the invariant of one item -/
def tiItem : CItem → Bool
  | .table t => tiTbl t
  | .aot ts _ => tiAot ts
  | .value _ => true

theorem tiItems_cons (k : CKey) (it : CItem) (r : Items) : tiItems ((k, it) :: r) = (tiItem it && tiItems r) := by
  cases it <;> simp [tiItems, tiItem]

theorem tiItems_append : ∀ (x y : Items), tiItems (x ++ y) = (tiItems x && tiItems y)
  | [], y => by simp [tiItems]
  | (k, it) :: r, y => by
    simp only [List.cons_append, tiItems_cons, tiItems_append r y, Bool.and_assoc]

theorem tiAot_append : ∀ (x y : List CTbl), tiAot (x ++ y) = (tiAot x && tiAot y)
  | [], y => by simp [tiAot]
  | t :: r, y => by simp only [List.cons_append, tiAot, tiAot_append r y, Bool.and_assoc]

theorem ti_lookup (k : Bytes) : ∀ (items : Items) (it : CItem), tiItems items = true → clookup k items = some it →
    tiItem it = true
  | [], _, _, h => by simp [clookup] at h
  | (k0, v) :: r, it, ht, h => by
    rw [tiItems_cons] at ht
    simp only [Bool.and_eq_true] at ht
    unfold clookup at h
    split at h
    · injection h with h; subst h; exact ht.1
    · exact ti_lookup k r it ht.2 h

theorem tiItems_creplace (k : Bytes) (x : CItem) (hx : tiItem x = true) : ∀ (items : Items), tiItems items = true →
    tiItems (creplace k x items) = true
  | [], _ => rfl
  | (k0, v) :: r, ht => by
    rw [tiItems_cons] at ht
    simp only [Bool.and_eq_true] at ht
    unfold creplace
    split
    · rw [tiItems_cons, hx, ht.2]; rfl
    · rw [tiItems_cons, ht.1, tiItems_creplace k x hx r ht.2]; rfl

theorem tiItems_cset (k : CKey) (x : CItem) (hx : tiItem x = true) (items : Items) (h : tiItems items = true) :
    tiItems (cset k x items) = true := by
  unfold cset
  split
  · exact tiItems_creplace _ _ hx _ h
  · rw [tiItems_append, h, tiItems_cons, hx]; rfl

theorem tiItems_cerase (k : Bytes) : ∀ (items : Items), tiItems items = true → tiItems (cerase k items) = true
  | [], _ => rfl
  | (k0, v) :: r, ht => by
    rw [tiItems_cons] at ht
    simp only [Bool.and_eq_true] at ht
    unfold cerase
    split
    · exact ht.2
    · rw [tiItems_cons, ht.1, tiItems_cerase k r ht.2]; rfl

theorem tiTbl_setItems (t : CTbl) (I : Items) (h : tiTbl t = true) (h1 : nodupK I = true) (h2 : tiItems I = true) :
    tiTbl (t.setItems I) = true := by
  rw [tiTbl_eq] at h ⊢
  simp only [Bool.and_eq_true] at h
  obtain ⟨items, imp, dot, p, dec, sp⟩ := t
  simp only [CTbl.implicit, CTbl.pos] at h
  simp [CTbl.setItems, CTbl.implicit, CTbl.pos, CTbl.items, h1, h2]
  simpa using h.1.1

theorem tiTbl_newImplicit (d : Bool) : tiTbl (newImplicit d) = true := by
  simp [newImplicit, tiTbl, nodupK, tiItems]

theorem tiTbl_parts (t : CTbl) (h : tiTbl t = true) :
    nodupK t.items = true ∧ tiItems t.items = true ∧ (t.implicit = true → t.pos = none) := by
  rw [tiTbl_eq] at h
  simp only [Bool.and_eq_true, Bool.or_eq_true, Bool.not_eq_true', Option.isNone_iff_eq_none] at h
  refine ⟨h.1.2, h.2, fun hi => ?_⟩
  rcases h.1.1 with h1 | h1
  · rw [hi] at h1; cases h1
  · exact h1

/-- every `descend` whose callback keeps the invariant keeps it -/
theorem descend_ti (g : CTbl → Option CTbl) (hg : ∀ p p', g p = some p' → tiTbl p = true → tiTbl p' = true) :
    ∀ (path : List CKey) (t t' : CTbl) (d : Bool), tiTbl t = true → descend t path d g = some t' → tiTbl t' = true := by
  intro path
  induction path with
  | nil => intro t t' d ht h; rw [descend_nil] at h; exact hg _ _ h ht
  | cons k ks ih =>
    intro t t' d ht h
    obtain ⟨hn, hti, _⟩ := tiTbl_parts t ht
    obtain ⟨x, e, hx⟩ := descend_cons_shape _ _ _ _ _ _ h
    subst e
    apply tiTbl_setItems t _ ht (nodupK_cset _ _ _ hn)
    apply tiItems_cset _ _ _ _ hti
    rcases hx with ⟨sub, sub', e1, hd, e2⟩ | ⟨init, l, l', sp, e1, hd, e2⟩
    · subst e2
      have hs : tiTbl sub = true := by
        cases hl : clookup k.key t.items with
        | none => rw [hl] at e1; simp only [Option.getD_none] at e1; injection e1 with e1; subst e1; exact tiTbl_newImplicit d
        | some y =>
          rw [hl] at e1; simp only [Option.getD_some] at e1; subst e1
          exact ti_lookup _ _ _ hti hl
      exact ih _ _ _ hs hd
    · subst e2
      have hs : tiAot (init ++ [l]) = true := by
        cases hl : clookup k.key t.items with
        | none => rw [hl] at e1; simp only [Option.getD_none] at e1; cases e1
        | some y =>
          rw [hl] at e1; simp only [Option.getD_some] at e1; subst e1
          exact ti_lookup _ _ _ hti hl
      rw [tiAot_append] at hs
      simp only [Bool.and_eq_true, tiAot, Bool.and_true] at hs
      show tiAot (init ++ [l']) = true
      rw [tiAot_append, hs.1]
      simp only [tiAot, Bool.and_true, Bool.true_and]
      exact ih _ _ _ hs.2 hd

theorem eraseFn_ti (key : CKey) (p p' : CTbl) (h : eraseFn key p = some p') (ht : tiTbl p = true) : tiTbl p' = true := by
  obtain ⟨hn, hti, _⟩ := tiTbl_parts p ht
  unfold eraseFn at h
  injection h with h; subst h
  exact tiTbl_setItems p _ ht (nodupK_cerase _ _ hn) (tiItems_cerase _ _ hti)

theorem arrFn_ti (key : CKey) (p p' : CTbl) (h : arrFn key p = some p') (ht : tiTbl p = true) : tiTbl p' = true := by
  obtain ⟨hn, hti, _⟩ := tiTbl_parts p ht
  unfold arrFn at h
  split at h
  · injection h with h; subst h; exact ht
  · cases h
  · rename_i hl
    injection h with h; subst h
    exact tiTbl_setItems p _ ht (nodupK_snoc _ _ _ hn hl) (by rw [tiItems_append, hti, tiItems_cons]; rfl)

theorem startFn_ti (a : Bool) (key : CKey) (p p' : CTbl) (h : (if a then arrFn key else eraseFn key) p = some p')
    (ht : tiTbl p = true) : tiTbl p' = true := by
  cases a
  · exact eraseFn_ti key p p' h ht
  · exact arrFn_ti key p p' h ht

theorem finFn_ti (a : Bool) (key : CKey) (cur p p' : CTbl) (hc : tiTbl cur = true)
    (h : (if a then finArr key cur else finStd key cur) p = some p') (ht : tiTbl p = true) : tiTbl p' = true := by
  obtain ⟨hn, hti, _⟩ := tiTbl_parts p ht
  cases a with
  | false =>
    simp only [Bool.false_eq_true, if_false] at h
    have hn' := finStd_nodup key cur p p' h hn
    unfold finStd at h
    split at h
    · split at h
      · injection h with h; subst h
        exact tiTbl_setItems p _ ht (by simpa using hn') (tiItems_creplace _ (.table cur) hc _ hti)
      · cases h
    · cases h
    · injection h with h; subst h
      exact tiTbl_setItems p _ ht (by simpa using hn') (by rw [tiItems_append, hti, tiItems_cons]; simp [tiItem, hc, tiItems])
  | true =>
    simp only [if_true] at h
    have hn' := finArr_nodup key cur p p' h hn
    unfold finArr at h
    split at h
    · rename_i ts sp0 hget
      injection h with h; subst h
      refine tiTbl_setItems p _ ht (by simpa using hn') (tiItems_cset _ _ ?_ _ hti)
      show tiAot (ts ++ [cur]) = true
      rw [tiAot_append]
      have hts : tiAot ts = true := by
        cases hl : clookup key.key p.items with
        | none => rw [hl] at hget; simp only [Option.getD_none] at hget; injection hget with e1 e2; subst e1; rfl
        | some y => rw [hl] at hget; simp only [Option.getD_some] at hget; subst hget; exact ti_lookup _ _ _ hti hl
      rw [hts]; simp [tiAot, hc]
    · cases h

theorem kvFn_ti (path : List CKey) (key' : CKey) (v : CVal) (p p' : CTbl) (h : kvFn path key' v p = some p')
    (ht : tiTbl p = true) : tiTbl p' = true := by
  obtain ⟨hn, hti, _⟩ := tiTbl_parts p ht
  obtain ⟨e, hl⟩ := kvFn_facts _ _ _ _ _ h
  subst e
  exact tiTbl_setItems p _ ht (nodupK_snoc _ _ _ hn hl) (by rw [tiItems_append, hti, tiItems_cons]; rfl)

/-! ### the summary under equally printed path prefixes -/

theorem hdN_congr (f : Bytes → Bytes) (inp : Bytes) (t : CTbl) (X Y : List CKey) (k : CKey) (a : Bool)
    (h : SegsEq f inp X Y) : hdN f inp t (X ++ [k]) a = hdN f inp t (Y ++ [k]) a := by
  unfold hdN
  rw [entText_path_congr f inp t (X ++ [k]) (Y ++ [k]) a (snoc_ne_nil _ _) (snoc_ne_nil _ _)
    (encodeKeyPath_congr f inp X Y k k [] [] h (LeafEq.refl f inp k))]

mutual
theorem nsTbl_congr (f : Bytes → Bytes) (inp : Bytes) : ∀ (t : CTbl) (X Y : List CKey) (k : CKey) (a : Bool),
    SegsEq f inp X Y → nsTbl f inp t (X ++ [k]) a = nsTbl f inp t (Y ++ [k]) a
  | .mk items imp dot p dec sp, X, Y, k, a, h => by
    rw [nsTbl, nsTbl, hdN_congr f inp _ X Y k a h,
      nsItems_congr f inp items (X ++ [k]) (Y ++ [k]) (h.snoc (SegEq.refl f inp k))]
theorem nsItems_congr (f : Bytes → Bytes) (inp : Bytes) : ∀ (items : List (CKey × CItem)) (X Y : List CKey),
    SegsEq f inp X Y → nsItems f inp items X = nsItems f inp items Y
  | [], _, _, _ => rfl
  | (k, .table t) :: r, X, Y, h => by
    rw [nsItems, nsItems, nsTbl_congr f inp t X Y k false h, nsItems_congr f inp r X Y h]
  | (k, .aot ts sp) :: r, X, Y, h => by
    rw [nsItems, nsItems, nsAot_congr f inp ts X Y k h, nsItems_congr f inp r X Y h]
  | (k, .value v) :: r, X, Y, h => by
    rw [nsItems, nsItems]; exact nsItems_congr f inp r X Y h
theorem nsAot_congr (f : Bytes → Bytes) (inp : Bytes) : ∀ (ts : List CTbl) (X Y : List CKey) (k : CKey),
    SegsEq f inp X Y → nsAot f inp ts (X ++ [k]) = nsAot f inp ts (Y ++ [k])
  | [], _, _, _, _ => rfl
  | t :: r, X, Y, k, h => by
    rw [nsAot, nsAot, nsTbl_congr f inp t X Y k true h, nsAot_congr f inp r X Y k h]
end

end TomlVerif.Lemmas.Tiling03More.Tko
