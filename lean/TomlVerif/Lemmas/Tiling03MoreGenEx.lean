import TomlVerif.Lemmas.Tiling03MoreGenMain
/-! C03, same data, the join class — the decidable hypotheses of the lemmas of
    `Tiling03MoreGen*.lean` on a concrete input (non-vacuity). -/
namespace TomlVerif.Lemmas.Tiling03More.Gen
open TomlVerif TomlVerif.Spec TomlVerif.Model TomlVerif.Model.Strings TomlVerif.Model.Value
open TomlVerif.Model.Cst TomlVerif.Model.Encode TomlVerif.Lemmas.Tiling03Nest TomlVerif.Lemmas.Tiling03More
open TomlVerif.Lemmas.Tiling03More.Tko TomlVerif.Lemmas.Tiling03More.Nad

def exG : Bytes := strBytes "[x.y]\n[z]\n[x]\na.b = 1\nc = 2\na.d = 3\n"

def hdrStep (s : Bytes) (p : CState × Bytes) : Option (CState × Bytes) :=
  (ctableLine s.length p.1 p.2).map fun q => ((parseWs s.length q.1 q.2).1, (parseWs s.length q.1 q.2).2)
def kvStep (s : Bytes) (p : CState × Bytes) : Option (CState × Bytes) :=
  (ckeyvalLine s.length p.1 p.2).map fun q => ((parseWs s.length q.1 q.2).1, (parseWs s.length q.1 q.2).2)

/-- the state before the take-over header `[x]` -/
def before3 : Option (CState × Bytes) := (hdrStep exG ({}, exG)).bind (hdrStep exG)
/-- the state before the non-adjacent line `a.d = 3`: current table of `[x]` = `y` (taken over) ++ body -/
def before6 : Option (CState × Bytes) := ((before3.bind (hdrStep exG)).bind (kvStep exG)).bind (kvStep exG)

/-- `header_step_G`, `ctableLine_cur_subs`: the take-over header passes `hdrLineOkT`, fails
    `hdrLineOkA`, and leaves a current table of sub-tables only, not empty -/
example : (before3.map fun p => hdrLineOkT exG p.1 p.2) = some true ∧
    (before3.map fun p => hdrLineOkA exG p.1 p.2) = some false ∧
    ((before3.bind (hdrStep exG)).map fun p => onlySubs p.1.current.items && !p.1.current.items.isEmpty) = some true := by
  decide +kernel

/-- `kv_descendG`, `descend_base`, `keyval_step_G`, `run_bodyG`: the current table is
    `base ++ body` with `base` the taken-over sub-table; the line passes `dottedOkN`, fails the
    adjacency check, and is accepted -/
example : (before6.map fun p => onlySubs (p.1.current.items.take 1) && bodyOkN (p.1.current.items.drop 1)
      && TomlVerif.Lemmas.Tiling03Hdr.nodupK p.1.current.items && (p.1.current.items.length == 3)) = some true ∧
    (before6.map fun p => kvLineOkN exG p.1 p.2) = some true ∧
    (before6.map fun p => kvLineOkA exG p.1 p.2) = some false ∧
    (before6.map fun p => (ckeyvalLine exG.length p.1 p.2).isSome) = some true := by decide +kernel

/-- `clines_ginv`, `same_data_gen`, `runOkN_G`, `runOkT_G` -/
example : genRun exG = true ∧ nadRun exG = false ∧ tkoRun exG = false ∧ (parseCst exG).isSome = true ∧
    nadRun (strBytes "a.b = 1\nc = 2\na.d = 3\n") = true ∧ tkoRun (strBytes "[x.y]\n[z]\n[x]\n") = true := by
  decide +kernel

end TomlVerif.Lemmas.Tiling03More.Gen
