import TomlVerif.Lemmas.Spans14Table
/-! C14 (document level): the parse-state invariant "every recorded span is well-formed and ends at or
    before the current offset" and its preservation by every step of the document driver. -/
namespace TomlVerif.Lemmas.Spans14
open TomlVerif TomlVerif.Spec TomlVerif.Model TomlVerif.Model.Strings TomlVerif.Model.Value
open TomlVerif.Model.Cst TomlVerif.Lemmas.Cst03

/-- the invariant of the parse state at offset `p`: everything recorded so far (root, current table,
    pending trivia, the current header's keys) lies in `[0, p]`, and the root holds nothing that ends
    after the end of the current table's span (what makes array-of-tables spans well-formed) -/
structure Inv (st : CState) (p : Nat) : Prop where
  root : TblOK 0 p st.root
  cur : TblOK 0 p st.current
  trail : ∀ t, st.trailing = some t → Within 0 p t
  path : AllW 0 p (keysSpans st.currentPath)
  low : ∀ b, st.current.span = some b → TblOK 0 b.2 st.root

theorem Inv.mono {st : CState} {p p' : Nat} (h : Inv st p) (hp : p ≤ p') : Inv st p' where
  root := TblOK.mono (Nat.le_refl 0) hp _ h.root
  cur := TblOK.mono (Nat.le_refl 0) hp _ h.cur
  trail := fun t ht => by have := h.trail t ht; unfold Within at *; omega
  path := h.path.mono (Nat.le_refl 0) hp
  low := h.low

theorem Inv.init : Inv {} 0 where
  root := TblOK_empty 0 0
  cur := by
    rw [TblOK_mk]
    refine ⟨AllKV.nil, by rw [decorSp_default]; exact AllW.nil _ _, AllW.single ?_⟩
    exact ⟨Nat.le_refl _, Nat.le_refl _, Nat.le_refl _⟩
  trail := by intro t ht; cases ht
  path := AllW.nil _ _
  low := fun _ _ => TblOK_empty 0 _

theorem map_some {α β} {f : α → β} {o : Option α} {b : β} (h : o.map f = some b) :
    ∃ a, o = some a ∧ b = f a := by
  cases o with
  | none => cases h
  | some a => exact ⟨a, rfl, by simpa using h.symm⟩

theorem onWs_inv {st : CState} {p a b : Nat} (h : Inv st p) (h1 : p ≤ a) (h2 : a ≤ b) : Inv (onWs st a b) b := by
  have hm := h.mono (Nat.le_trans h1 h2)
  unfold onWs
  split
  · rename_i a0 x heq
    have := h.trail _ heq
    refine ⟨hm.root, hm.cur, ?_, hm.path, hm.low⟩
    intro t ht
    injection ht with ht; subst ht
    unfold Within at *
    simp only [] at *
    omega
  · refine ⟨hm.root, hm.cur, ?_, hm.path, hm.low⟩
    intro t ht
    injection ht with ht; subst ht
    unfold Within
    simp only []
    omega

theorem takeTrailing_allW {lo hi : Nat} {o : Option Span} (h : ∀ t, o = some t → Within lo hi t) :
    AllW lo hi (rawSp (takeTrailing o)) := by
  unfold takeTrailing
  split
  · exact withSpan_allW (h _ rfl)
  · exact AllW.nil _ _

/-! ### `on_keyval` -/

def kpre (key : CKey) : Option Span :=
  match key.leaf.pre with
  | some r => r.span
  | none => none

def joinPre (tr kp : Option Span) : Option Span :=
  match tr, kp with
  | some p, some k => some (p.1, k.2)
  | some p, none => some p
  | none, some p => some p
  | none, none => none

def kvKey (st : CState) (key : CKey) : CKey :=
  { key with leaf := { key.leaf with pre := some (takeTrailing (joinPre st.trailing (kpre key))) } }

def kvCur (st : CState) (v : CVal) : CTbl :=
  match st.current.span, v.span with
  | some e, some vs => st.current.setSpan (some (e.1, vs.2))
  | _, _ => st.current

def kvF (key' : CKey) (v : CVal) (path : List CKey) : CTbl → Option CTbl := fun table =>
  if table.dotted == path.isEmpty then none
  else match clookup key'.key table.items with
    | some _ => none
    | none => some (table.setItems (table.items ++ [(key', .value v)]))

theorem onKeyval_eq (st : CState) (path : List CKey) (key : CKey) (v : CVal) :
    onKeyval st path key v =
      (descend (kvCur st v) path true (kvF (kvKey st key) v path)).map
        fun c => { st with current := c, trailing := none } := rfl

theorem kpre_mem {key : CKey} {k : Span} (h : kpre key = some k) : k ∈ keySpans key := by
  unfold kpre at h
  split at h
  · rename_i r hr
    cases r with
    | empty => simp [Raw.span] at h
    | spanned a b =>
      simp [Raw.span] at h; subst h
      simp [keySpans, decorSp, hr, optRawSp, rawSp]
  · cases h

theorem joinPre_within {p p' : Nat} {tr kp : Option Span} (htr : ∀ t, tr = some t → Within 0 p t)
    (hkp : ∀ k, kp = some k → Within p p' k) (hpp : p ≤ p') : ∀ t, joinPre tr kp = some t → Within 0 p' t := by
  intro t ht
  unfold joinPre at ht
  split at ht
  · injection ht with ht; subst ht
    have h1 := htr _ rfl
    have h2 := hkp _ rfl
    unfold Within at *
    simp only []
    omega
  · injection ht with ht; subst ht
    have h1 := htr _ rfl
    unfold Within at *
    omega
  · injection ht with ht; subst ht
    have h2 := hkp _ rfl
    unfold Within at *
    omega
  · cases ht

theorem kvKey_spans {st : CState} {key : CKey} {p p' : Nat} (htr : ∀ t, st.trailing = some t → Within 0 p t)
    (hkey : AllW p p' (keySpans key)) (hpp : p ≤ p') : AllW 0 p' (keySpans (kvKey st key)) := by
  have hkey0 : AllW 0 p' (keySpans key) := hkey.mono (Nat.zero_le _) (Nat.le_refl _)
  have hj := joinPre_within htr (fun k hk => hkey k (kpre_mem hk)) hpp
  unfold kvKey
  simp only [keySpans, decorSp, optRawSp] at hkey0 ⊢
  refine AllW.append (AllW.append hkey0.left.left (AllW.append (takeTrailing_allW hj) hkey0.left.right.right)) hkey0.right

theorem kvCur_ok {st : CState} {v : CVal} {p p' : Nat} (hinv : Inv st p) (hv : AllW p p' (valSpans v)) (hpp : p ≤ p') :
    TblOK 0 p' (kvCur st v) ∧ ∀ b, (kvCur st v).span = some b → TblOK 0 b.2 st.root := by
  have hcur := TblOK.mono (Nat.le_refl 0) hpp _ hinv.cur
  unfold kvCur
  split
  · rename_i e vs he hvs
    have h1 : Within 0 p e := optSp_allW.1 ((TblOK_iff _ _ _).1 hinv.cur).2.2 e he
    have h2 : Within p p' vs := hv vs (span_mem_valSpans v vs hvs)
    have hc := (TblOK_iff _ _ _).1 hcur
    constructor
    · rw [TblOK_setSpan]
      refine ⟨hc.1, hc.2.1, AllW.single ?_⟩
      unfold Within at *
      simp only []
      omega
    · intro b hb
      have : b = (e.1, vs.2) := by
        cases hc' : st.current
        rw [hc'] at hb
        simp [CTbl.setSpan, CTbl.span] at hb
        exact hb.symm
      subst this
      refine TblOK.mono (Nat.le_refl 0) ?_ _ (hinv.low e he)
      unfold Within at *
      simp only []
      omega
  · exact ⟨hcur, hinv.low⟩

theorem onKeyval_inv {st st' : CState} {p p' : Nat} {path : List CKey} {key : CKey} {v : CVal}
    (hinv : Inv st p) (hpp : p ≤ p') (hpath : AllW p p' (keysSpans path)) (hkey : AllW p p' (keySpans key))
    (hv : AllW p p' (valSpans v)) (hn : NestV v) (h : onKeyval st path key v = some st') : Inv st' p' := by
  rw [onKeyval_eq] at h
  obtain ⟨c, hc, rfl⟩ := map_some h
  have hk' := kvKey_spans hinv.trail hkey hpp
  obtain ⟨hcur, hlow⟩ := kvCur_ok hinv hv hpp
  have hf : ∀ u u', TblOK 0 p' u → kvF (kvKey st key) v path u = some u' → TblOK 0 p' u' := by
    intro u u' hu hfu
    unfold kvF at hfu
    split at hfu
    · cases hfu
    · split at hfu
      · cases hfu
      · injection hfu with hfu; subst hfu
        have hu' := (TblOK_iff _ _ _).1 hu
        rw [TblOK_setItems]
        exact ⟨hu'.1.append (AllKV.single hk' ⟨hv.mono (Nat.zero_le _) (Nat.le_refl _), hn⟩), hu'.2⟩
  have hc' := descend_ok (Nat.le_refl p') _ hf path _ true c (hpath.mono (Nat.zero_le _) (Nat.le_refl _)) hcur hc
  have hsp : c.span = (kvCur st v).span := by
    refine descend_span _ ?_ path _ true c hc
    intro u u' hfu
    unfold kvF at hfu
    split at hfu
    · cases hfu
    · split at hfu
      · cases hfu
      · injection hfu with hfu; subst hfu; exact span_setItems _ _
  exact ⟨TblOK.mono (Nat.le_refl 0) hpp _ hinv.root, hc', (by intro t ht; cases ht),
    hinv.path.mono (Nat.le_refl 0) hpp, fun b hb => hlow b (hsp ▸ hb)⟩

/-! ### `finalize_table` -/

theorem getLast?_snoc {α} (l : List α) (a : α) : (l ++ [a]).getLast? = some a := by simp

theorem tbl_span_within {lo hi : Nat} {t : CTbl} (h : TblOK lo hi t) {e : Span} (he : t.span = some e) :
    Within lo hi e :=
  optSp_allW.1 ((TblOK_iff _ _ _).1 h).2.2 e he

theorem aotSpan_ok {p hi1 : Nat} (ts : List CTbl) (table : CTbl) (hts : ∀ t ∈ ts, TblOK 0 hi1 t)
    (htab : TblOK 0 p table) (hb : ∀ b, table.span = some b → hi1 = b.2) :
    AllW 0 p (optSp (aotSpan (ts ++ [table]))) := by
  rw [optSp_allW]
  intro e he
  unfold aotSpan at he
  rw [getLast?_snoc] at he
  cases ts with
  | nil =>
    simp only [List.nil_append, List.head?_cons] at he
    cases hsp : table.span with
    | none => simp [hsp] at he
    | some b =>
      simp [hsp] at he
      subst he
      exact tbl_span_within htab hsp
  | cons t0 rest =>
    simp only [List.cons_append, List.head?_cons] at he
    cases hsp : table.span with
    | none => cases h0 : t0.span <;> simp [hsp, h0] at he
    | some b =>
      cases h0 : t0.span with
      | none => simp [hsp, h0] at he
      | some a =>
        simp [hsp, h0] at he
        subst he
        have h1 := tbl_span_within htab hsp
        have h2 := tbl_span_within (hts t0 (by simp)) h0
        have := hb b hsp
        unfold Within at *
        simp only []
        omega

theorem finalizeTable_ok {st st' : CState} {p : Nat} (hinv : Inv st p) (h : finalizeTable st = some st') :
    TblOK 0 p st'.root ∧ st'.current = CTbl.empty ∧ st'.currentPath = [] ∧ st'.trailing = st.trailing := by
  unfold finalizeTable at h
  simp only [] at h
  split at h
  · split at h
    · injection h with h; subst h
      exact ⟨hinv.cur, rfl, rfl, rfl⟩
    · cases h
  · rename_i parentPath key hsl
    have hpath := hinv.path
    rw [splitLast_some _ _ _ hsl, keysSpans_append, keysSpans_single] at hpath
    split at h
    · -- `[[array]]`
      obtain ⟨root', hd, rfl⟩ := map_some h
      refine ⟨?_, rfl, rfl, rfl⟩
      -- the bound the root satisfies: the end of the current table's span when there is one
      obtain ⟨hi1, h1p, hroot1, hb⟩ : ∃ hi1, hi1 ≤ p ∧ TblOK 0 hi1 st.root ∧ ∀ b, st.current.span = some b → hi1 = b.2 := by
        cases hsp : st.current.span with
        | none => exact ⟨p, Nat.le_refl _, hinv.root, by intro b hb; cases hb⟩
        | some b =>
          refine ⟨b.2, (tbl_span_within hinv.cur hsp).2.2, hinv.low b hsp, ?_⟩
          intro b' hb'; injection hb' with hb'; subst hb'; rfl
      refine descend_ok h1p _ ?_ parentPath _ false root' hpath.left hroot1 hd
      intro u u' hu hfu
      have hu1 := (TblOK_iff _ _ _).1 hu
      have hu2 := (TblOK_iff _ _ _).1 (TblOK.mono (Nat.le_refl 0) h1p _ hu)
      have hent : ItemOK 0 hi1 ((clookup key.key u.items).getD (.aot [] none)) := by
        cases hl : clookup key.key u.items with
        | none => exact ⟨trivial, AllW.nil _ _⟩
        | some e => exact AllKV.lookup hu1.1 hl
      generalize (clookup key.key u.items).getD (.aot [] none) = entry at hfu hent
      cases entry with
      | value v => cases hfu
      | table t => cases hfu
      | aot ts sp =>
        simp only [] at hfu
        injection hfu with hfu; subst hfu
        have hts := (TblsOK_iff _ _ _).1 hent.1
        rw [TblOK_setItems]
        refine ⟨AllKV.cset hu2.1 hpath.right ⟨?_, aotSpan_ok ts st.current hts hinv.cur hb⟩, hu2.2⟩
        rw [TblsOK_iff]
        intro x hx
        rcases List.mem_append.1 hx with hx | hx
        · exact TblOK.mono (Nat.le_refl 0) h1p x (hts x hx)
        · simp at hx; subst hx; exact hinv.cur
    · -- `[table]`
      obtain ⟨root', hd, rfl⟩ := map_some h
      refine ⟨?_, rfl, rfl, rfl⟩
      refine descend_ok (Nat.le_refl p) _ ?_ parentPath _ false root' hpath.left hinv.root hd
      intro u u' hu hfu
      have hu1 := (TblOK_iff _ _ _).1 hu
      have hcur : ItemOK 0 p (.table st.current) := hinv.cur
      split at hfu
      · split at hfu
        · injection hfu with hfu; subst hfu
          rw [TblOK_setItems]
          exact ⟨AllKV.creplace hu1.1 hcur, hu1.2⟩
        · cases hfu
      · cases hfu
      · injection hfu with hfu; subst hfu
        rw [TblOK_setItems]
        exact ⟨hu1.1.append (AllKV.single hpath.right hcur), hu1.2⟩

/-! ### headers -/

theorem startTable_ok {st st' : CState} {path : List CKey} {decor : Decor} {span : Span} {p p' : Nat}
    (hroot : TblOK 0 p st.root) (hcur : TblOK 0 p st.current)
    (htr : ∀ t, st.trailing = some t → Within 0 p' t) (hp : p ≤ span.2) (hspan : Within 0 p' span)
    (hpath : AllW 0 span.2 (keysSpans path)) (hdec : AllW 0 p' (decorSp decor))
    (h : startTable st path decor span = some st') : Inv st' p' := by
  have hp' : span.2 ≤ p' := hspan.2.2
  unfold startTable at h
  split at h
  · cases h
  · rename_i parentPath key hsl
    have hpath' := hpath
    rw [splitLast_some _ _ _ hsl, keysSpans_append, keysSpans_single] at hpath'
    simp only [] at h
    split at h
    · cases h
    · split at h
      · cases h
      · rename_i root' hd
        injection h with h; subst h
        have hroot' : TblOK 0 span.2 root' := by
          refine descend_ok hp _ ?_ parentPath _ false root' hpath'.left hroot hd
          intro u u' hu hfu
          injection hfu with hfu; subst hfu
          have hu2 := (TblOK_iff _ _ _).1 (TblOK.mono (Nat.le_refl 0) hp _ hu)
          rw [TblOK_setItems]
          exact ⟨AllKV.cerase hu2.1, hu2.2⟩
        have hbase : TblOK 0 p ((findTable key.key st.root parentPath).getD st.current) := by
          cases hf : findTable key.key st.root parentPath with
          | none => exact hcur
          | some x => exact findTable_ok _ _ _ _ hroot hf
        refine ⟨TblOK.mono (Nat.le_refl 0) hp' _ hroot', ?_, htr, hpath.mono (Nat.le_refl 0) hp', ?_⟩
        · rw [TblOK_mk]
          exact ⟨IsOK.mono (Nat.le_refl 0) (Nat.le_trans hp hp') ((TblOK_iff _ _ _).1 hbase).1, hdec, AllW.single hspan⟩
        · intro b hb
          have : b = span := by simpa [CTbl.span] using hb.symm
          subst this
          exact hroot'

theorem startArrayTable_ok {st st' : CState} {path : List CKey} {decor : Decor} {span : Span} {p p' : Nat}
    (hroot : TblOK 0 p st.root) (hcur : TblOK 0 p st.current)
    (htr : ∀ t, st.trailing = some t → Within 0 p' t) (hp : p ≤ span.2) (hspan : Within 0 p' span)
    (hpath : AllW 0 span.2 (keysSpans path)) (hdec : AllW 0 p' (decorSp decor))
    (h : startArrayTable st path decor span = some st') : Inv st' p' := by
  have hp' : span.2 ≤ p' := hspan.2.2
  unfold startArrayTable at h
  split at h
  · cases h
  · rename_i parentPath key hsl
    have hpath' := hpath
    rw [splitLast_some _ _ _ hsl, keysSpans_append, keysSpans_single] at hpath'
    simp only [] at h
    split at h
    · cases h
    · rename_i root' hd
      injection h with h; subst h
      have hroot' : TblOK 0 span.2 root' := by
        refine descend_ok hp _ ?_ parentPath _ false root' hpath'.left hroot hd
        intro u u' hu hfu
        have hu2 := (TblOK_iff _ _ _).1 (TblOK.mono (Nat.le_refl 0) hp _ hu)
        split at hfu
        · injection hfu with hfu; subst hfu
          exact TblOK.mono (Nat.le_refl 0) hp _ hu
        · cases hfu
        · injection hfu with hfu; subst hfu
          rw [TblOK_setItems]
          exact ⟨hu2.1.append (AllKV.single hpath'.right ⟨trivial, AllW.nil _ _⟩), hu2.2⟩
      refine ⟨TblOK.mono (Nat.le_refl 0) hp' _ hroot', ?_, htr, hpath.mono (Nat.le_refl 0) hp', ?_⟩
      · rw [TblOK_mk]
        exact ⟨IsOK.mono (Nat.le_refl 0) (Nat.le_trans hp hp') ((TblOK_iff _ _ _).1 hcur).1, hdec, AllW.single hspan⟩
      · intro b hb
        have : b = span := by simpa [CTbl.span] using hb.symm
        subst this
        exact hroot'

theorem onStdHeader_inv {st st' : CState} {path : List CKey} {trailing : Raw} {span : Span} {p p' : Nat}
    (hinv : Inv st p) (hp : p ≤ span.2) (hspan : Within 0 p' span)
    (hpath : AllW 0 span.2 (keysSpans path)) (htrail : AllW 0 p' (rawSp trailing))
    (h : onStdHeader st path trailing span = some st') : Inv st' p' := by
  have hpp : p ≤ p' := Nat.le_trans hp hspan.2.2
  unfold onStdHeader at h
  split at h
  · rename_i st1 hfin
    obtain ⟨hroot, hcur, _, htr⟩ := finalizeTable_ok hinv hfin
    simp only [] at h
    refine startTable_ok (st := { st1 with trailing := none }) (p := p) hroot ?_ ?_ hp hspan hpath ?_ h
    · show TblOK 0 p st1.current
      rw [hcur]; exact TblOK_empty _ _
    · intro t ht; cases ht
    · rw [decorSp_new]
      refine AllW.append ?_ htrail
      refine (takeTrailing_allW ?_).mono (Nat.le_refl 0) hpp
      rw [htr]; exact hinv.trail
  · cases h

theorem onArrayHeader_inv {st st' : CState} {path : List CKey} {trailing : Raw} {span : Span} {p p' : Nat}
    (hinv : Inv st p) (hp : p ≤ span.2) (hspan : Within 0 p' span)
    (hpath : AllW 0 span.2 (keysSpans path)) (htrail : AllW 0 p' (rawSp trailing))
    (h : onArrayHeader st path trailing span = some st') : Inv st' p' := by
  have hpp : p ≤ p' := Nat.le_trans hp hspan.2.2
  unfold onArrayHeader at h
  split at h
  · rename_i st1 hfin
    obtain ⟨hroot, hcur, _, htr⟩ := finalizeTable_ok hinv hfin
    simp only [] at h
    refine startArrayTable_ok (st := { st1 with trailing := none }) (p := p) hroot ?_ ?_ hp hspan hpath ?_ h
    · show TblOK 0 p st1.current
      rw [hcur]; exact TblOK_empty _ _
    · intro t ht; cases ht
    · rw [decorSp_new]
      refine AllW.append ?_ htrail
      refine (takeTrailing_allW ?_).mono (Nat.le_refl 0) hpp
      rw [htr]; exact hinv.trail
  · cases h

/-! ### the line driver -/

theorem ctableLine_inv {n : Nat} {st st' : CState} {s r : Bytes} (hinv : Inv st (pos n s))
    (h : ctableLine n st s = some (st', r)) : r.length < s.length ∧ Inv st' (pos n r) := by
  unfold ctableLine at h
  split at h
  · rename_i r0
    split at h
    · rename_i ks r1 hk
      obtain ⟨l1, hks⟩ := ckeyPath_spans _ _ _ _ hk
      split at h
      · rename_i r2
        split at h
        · rename_i r3 hlt
          obtain ⟨st1, hst1, heq⟩ := map_some h
          injection heq with e1 e2; subst e1; subst e2
          have l3 := lineTrailing_len hlt
          have l4 := trailEnd_len r2
          have l5 : (0x5D :: 0x5D :: r2 : Bytes).length = r2.length + 2 := by simp
          have l6 : (0x5B :: 0x5B :: r0 : Bytes).length = r0.length + 2 := by simp
          refine ⟨by omega, ?_⟩
          refine onArrayHeader_inv hinv (pos_mono (by omega)) ⟨Nat.zero_le _, pos_mono (by omega), pos_mono (by omega)⟩
            (hks.mono (Nat.zero_le _) (pos_mono (by omega))) ?_ hst1
          exact rawBetween_allW _ _ _ _ _ (Nat.zero_le _) (pos_mono l4) (pos_mono l3)
        · cases h
      · cases h
    · cases h
  · rename_i r0 _
    split at h
    · cases h
    · split at h
      · rename_i ks r1 hk
        obtain ⟨l1, hks⟩ := ckeyPath_spans _ _ _ _ hk
        split at h
        · rename_i r2
          split at h
          · rename_i r3 hlt
            obtain ⟨st1, hst1, heq⟩ := map_some h
            injection heq with e1 e2; subst e1; subst e2
            have l3 := lineTrailing_len hlt
            have l4 := trailEnd_len r2
            have l5 : (0x5D :: r2 : Bytes).length = r2.length + 1 := by simp
            have l6 : (0x5B :: r0 : Bytes).length = r0.length + 1 := by simp
            refine ⟨by omega, ?_⟩
            refine onStdHeader_inv hinv (pos_mono (by omega)) ⟨Nat.zero_le _, pos_mono (by omega), pos_mono (by omega)⟩
              (hks.mono (Nat.zero_le _) (pos_mono (by omega))) ?_ hst1
            exact rawBetween_allW _ _ _ _ _ (Nat.zero_le _) (pos_mono l4) (pos_mono l3)
          · cases h
        · cases h
      · cases h
  · cases h

theorem ckeyvalLine_inv {n : Nat} {st st' : CState} {s r : Bytes} (hinv : Inv st (pos n s))
    (h : ckeyvalLine n st s = some (st', r)) : r.length < s.length ∧ Inv st' (pos n r) := by
  unfold ckeyvalLine at h
  split at h
  · rename_i ks r0 hk
    obtain ⟨l0, hks⟩ := ckeyPath_spans _ _ _ _ hk
    split at h
    · cases h
    · split at h
      · rename_i r1
        simp only [] at h
        split at h
        · rename_i v r2 hv
          obtain ⟨l2, hdec, hvs, hvn⟩ := cvalue_spans _ _ _ _ _ _ hv
          split at h
          · rename_i r3 hlt
            have l1 : (0x3D :: r1 : Bytes).length = r1.length + 1 := by simp
            have l1' := dropWs_len r1
            have l3 := lineTrailing_len hlt
            have l4 := trailEnd_len r2
            split at h
            · rename_i path key hsl
              obtain ⟨st1, hst1, heq⟩ := map_some h
              injection heq with e1 e2; subst e1; subst e2
              rw [splitLast_some _ _ _ hsl, keysSpans_append, keysSpans_single] at hks
              have hks' := hks.mono_pos (b := r) (Nat.le_refl _) (by omega)
              refine ⟨by omega, ?_⟩
              refine onKeyval_inv hinv (pos_mono (by omega)) hks'.left hks'.right ?_ ?_ hst1
              · refine valSpans_setDecor_allW v _ hdec (hvs.mono_pos (by omega) (by omega)) ?_
                rw [decorSp_new]
                exact AllW.append (rb_allW _ _ _ _ _ (by omega) l1' (by omega))
                  (rb_allW _ _ _ _ _ (by omega) l4 l3)
              · rw [NestV_setDecor]; exact hvn
            · cases h
          · cases h
        · cases h
      · cases h
  · cases h

theorem parseWs_inv {n : Nat} {st : CState} {s : Bytes} {p : Nat} (hinv : Inv st p) (hp : p ≤ pos n s) :
    Inv (parseWs n st s).1 (pos n (parseWs n st s).2) ∧ (parseWs n st s).2.length ≤ s.length := by
  show Inv (onWs st (pos n s) (pos n (dropWs s))) (pos n (dropWs s)) ∧ (dropWs s).length ≤ s.length
  exact ⟨onWs_inv hinv hp (pos_mono (dropWs_len s)), dropWs_len s⟩

theorem clines_inv (n : Nat) : ∀ (fuel : Nat) (st : CState) (s : Bytes) (st' : CState),
    Inv st (pos n s) → clines n fuel st s = some st' → Inv st' n := by
  intro fuel
  induction fuel with
  | zero => intro st s st' _ h; unfold clines at h; cases h
  | succ fuel ih =>
    intro st s st' hinv h
    unfold clines at h
    split at h
    · injection h with h; subst h
      simpa [pos] using hinv
    · rename_i b r
      have lb : (b :: r).length = r.length + 1 := by simp
      split at h
      · -- comment
        simp only [] at h
        have lc := dropComment_len r
        split at h
        · injection h with h; subst h
          have h1 : Inv (onWs st (pos n (b :: r)) n) n := onWs_inv hinv (Nat.le_refl _) (pos_le _ _)
          have h2 := (parseWs_inv (n := n) (s := []) h1 (by simp [pos])).1
          simpa [parseWs, pos, dropWs] using h2
        · split at h
          · rename_i r2 hnl
            have l2 := newline?_len hnl
            have h1 : Inv (onWs st (pos n (b :: r)) (pos n r2)) (pos n r2) :=
              onWs_inv hinv (Nat.le_refl _) (pos_mono (by omega))
            have h2 := parseWs_inv (n := n) (s := r2) h1 (Nat.le_refl _)
            exact ih _ _ _ h2.1 h
          · cases h
      · split at h
        · -- header
          split at h
          · rename_i st1 r1 hline
            obtain ⟨_, h1⟩ := ctableLine_inv hinv hline
            have h2 := parseWs_inv (n := n) (s := r1) h1 (Nat.le_refl _)
            exact ih _ _ _ h2.1 h
          · cases h
        · split at h
          · -- blank line
            split at h
            · rename_i r1 hnl
              have l2 := newline?_len hnl
              have h1 : Inv (onWs st (pos n (b :: r)) (pos n r1)) (pos n r1) :=
                onWs_inv hinv (Nat.le_refl _) (pos_mono (by omega))
              have h2 := parseWs_inv (n := n) (s := r1) h1 (Nat.le_refl _)
              exact ih _ _ _ h2.1 h
            · cases h
          · -- key/value
            split at h
            · rename_i st1 r1 hline
              obtain ⟨_, h1⟩ := ckeyvalLine_inv hinv hline
              have h2 := parseWs_inv (n := n) (s := r1) h1 (Nat.le_refl _)
              exact ih _ _ _ h2.1 h
            · cases h

/-! ### the document -/

theorem intoDocument_ok {st : CState} {d : CDoc} {p : Nat} (hinv : Inv st p) (h : intoDocument st = some d) :
    TblOK 0 p d.root ∧ AllW 0 p (rawSp d.trailing) := by
  unfold intoDocument at h
  split at h
  · rename_i st1 hfin
    injection h with h; subst h
    obtain ⟨hroot, _, _, htr⟩ := finalizeTable_ok hinv hfin
    refine ⟨hroot, takeTrailing_allW ?_⟩
    rw [htr]; exact hinv.trail
  · cases h

/-- the document-level result: offsets are relative to the whole input (a BOM, when present, is counted) -/
theorem parseCst_ok (s : Bytes) (d : CDoc) (h : parseCst s = some d) :
    TblOK 0 s.length d.root ∧ AllW 0 s.length (rawSp d.trailing) := by
  unfold parseCst at h
  simp only [] at h
  split at h
  · rename_i st hcl
    have h0 : Inv {} (pos s.length (Doc.stripBom s)) := Inv.init.mono (Nat.zero_le _)
    have h1 := (parseWs_inv (n := s.length) (s := Doc.stripBom s) h0 (Nat.le_refl _)).1
    exact intoDocument_ok (clines_inv _ _ _ _ _ h1 hcl) h
  · cases h

end TomlVerif.Lemmas.Spans14
