import TomlVerif.Lemmas.Tiling03MoreSemLine
/-! C03, same data — the parse-state invariant `AInvG`: the text the printer (with `stripCr`)
    writes for the state is the rendering of well-formed grammar lines whose statements, run from
    the initial state, give the erased state; plus the pending trivia.  `finalize_table`, the
    header line and the key/value line. -/
namespace TomlVerif.Lemmas.Tiling03More
open TomlVerif TomlVerif.Spec TomlVerif.Model TomlVerif.Model.Strings TomlVerif.Model.Value
open TomlVerif.Model.Cst TomlVerif.Model.Encode TomlVerif.Lemmas.Suffix03 TomlVerif.Lemmas.Cst03
open TomlVerif.Lemmas.LastByte03 TomlVerif.Lemmas.Tiling03 TomlVerif.Lemmas.Tiling03Hdr
open TomlVerif.Lemmas.Tiling03Nest TomlVerif.Lemmas.Tiling03More.VS
open TomlVerif.Spec.AstValue TomlVerif.Spec.AstValueQ TomlVerif.Spec.AstDoc TomlVerif.Spec.AstDocQ
open TomlVerif.Lemmas.Value01 (commentBytes)
open TomlVerif.Lemmas.State09 (Stmt run step run_append)

/-- the phase of the state and the text `T` the printer writes for its tables -/
def PhaseA (inp : Bytes) (st : CState) (T : Bytes) : Prop :=
  (st.root = CTbl.empty ∧ st.currentPath = [] ∧
    ∃ items imp sp, st.current = .mk items imp false none {} sp ∧ bodyOkU items = true ∧ bodyG inp items ∧
      T = encodeBody stripCr inp (valuesTbl items [])) ∨
  (∃ pp key items q lead trail sp SP, st.currentPath = pp ++ [key] ∧
    st.current = .mk items false false (some q) (Decor.new lead trail) sp ∧ bodyOkU items = true ∧
    bodyG inp items ∧ SpineA inp st.currentIsArray key st.root pp SP ∧
    T = rootTextO stripCr inp st.root ++ entText stripCr inp st.current SP st.currentIsArray)

/-- the invariant, over the predicate `Tv` on the pending trivia -/
def AInvG (Tv : Bytes → Prop) (inp : Bytes) (st : CState) (s : Bytes) : Prop :=
  ∃ ls T tr, (∀ p ∈ ls, QLine.WF p.1) ∧ T = renderLinesQ ls ∧
    run {} (stmtsLinesQ ls) = some (eraseState st) ∧
    PhaseA inp st T ∧ PInvO stripCr inp st ∧ gkItems inp st.root.items ∧
    TrailIs inp.length st.trailing tr s ∧ tr ++ s <:+ inp ∧ Tv tr

theorem ainv_onWs (Tv Tv' : Bytes → Prop) (inp : Bytes) (st : CState) (w s' : Bytes)
    (h : AInvG Tv inp st (w ++ s')) (hext : ∀ tr, Tv tr → Tv' (tr ++ w)) :
    AInvG Tv' inp (onWs st (pos inp.length (w ++ s')) (pos inp.length s')) s' := by
  obtain ⟨e1, e2, e3, e4, e5⟩ := onWs_fields st (pos inp.length (w ++ s')) (pos inp.length s')
  obtain ⟨ls, T, tr, a1, a2, a3, a4, a5, a6, a7, a8, a9⟩ := h
  refine ⟨ls, T, tr ++ w, a1, a2, by rw [onWs_erase]; exact a3, ?_, ?_, by rw [e1]; exact a6,
    trailIs_onWs _ st tr w s' a7, by simpa [List.append_assoc] using a8, hext tr a9⟩
  · unfold PhaseA; rw [e1, e2, e3, e4]; exact a4
  · unfold PInvO; rw [e1, e2, e3, e5]; exact a5

theorem ainv_consume (Tv Tv' : Bytes → Prop) (inp : Bytes) (st : CState) (s s' : Bytes)
    (h : AInvG Tv inp st s) (hext : ∃ w, s = w ++ s' ∧ ∀ tr, Tv tr → Tv' (tr ++ w)) :
    AInvG Tv' inp (onWs st (pos inp.length s) (pos inp.length s')) s' := by
  obtain ⟨w, hw, he⟩ := hext
  subst hw
  exact ainv_onWs Tv Tv' inp st w s' h he

theorem ainv_parseWs (inp : Bytes) (st : CState) (s : Bytes) (h : AInvG TrivOK inp st s) :
    AInvG TrivOK inp (parseWs inp.length st s).1 (parseWs inp.length st s).2 := by
  obtain ⟨w, hw, e, _⟩ := Sound01.dropWs_split s
  exact ainv_consume TrivOK TrivOK inp st s (dropWs s) h ⟨w, e, fun tr ht => triv_ws tr w ht hw⟩

theorem ainv_parseWs_end (inp : Bytes) (st : CState) (h : AInvG TrivEnd inp st []) :
    AInvG TrivEnd inp (parseWs inp.length st []).1 (parseWs inp.length st []).2 :=
  ainv_consume TrivEnd TrivEnd inp st [] [] h ⟨[], rfl, fun tr ht => by simpa using ht⟩

theorem ainv_end (inp : Bytes) (st : CState) (s : Bytes) (h : AInvG TrivOK inp st s) : AInvG TrivEnd inp st s := by
  obtain ⟨ls, T, tr, a1, a2, a3, a4, a5, a6, a7, a8, a9⟩ := h
  exact ⟨ls, T, tr, a1, a2, a3, a4, a5, a6, a7, a8, triv_end tr a9⟩

/-! ### statements -/

theorem trivLines_stmts : ∀ (tl : List (QLine × Bool)), TrivLines tl → stmtsLinesQ tl = []
  | [], _ => rfl
  | (l, c) :: r, h => by
    have h1 := (h (l, c) (by simp)).2
    simp only [] at h1
    simp only [stmtsLinesQ, h1]
    exact trivLines_stmts r (fun p hp => h p (List.mem_cons_of_mem _ hp))

theorem run_line (ls tl : List (QLine × Bool)) (line : QLine) (x : Stmt) (S S' : State.ParseState)
    (hrun : run {} (stmtsLinesQ ls) = some S) (htl : TrivLines tl) (hx : line.stmt = some x)
    (hstep : step S x = some S') :
    run {} (stmtsLinesQ (ls ++ (tl ++ [(line, false)]))) = some S' := by
  rw [stmtsLinesQ_append, stmtsLinesQ_append, trivLines_stmts tl htl, run_append, hrun]
  simp only [stmtsLinesQ, hx, List.nil_append, Option.bind_some, run, hstep]

theorem lines_wf (ls tl : List (QLine × Bool)) (line : QLine) (h1 : ∀ p ∈ ls, QLine.WF p.1) (h2 : TrivLines tl)
    (h3 : line.WF) : ∀ p ∈ ls ++ (tl ++ [(line, false)]), QLine.WF p.1 := by
  intro p hp
  rcases List.mem_append.1 hp with hp | hp
  · exact h1 p hp
  · rcases List.mem_append.1 hp with hp | hp
    · exact (h2 p hp).1
    · simp only [List.mem_singleton] at hp; subst hp; exact h3

/-! ### `finalize_table` -/

theorem finalize_A (inp : Bytes) (st st1 : CState) (T : Bytes) (hfin : finalizeTable st = some st1)
    (hsh : PhaseA inp st T) (hP : PInvO stripCr inp st) (hg : gkItems inp st.root.items) :
    rootTextO stripCr inp st1.root = T ∧ st1.root.dotted = false ∧
    st1.trailing = st.trailing ∧ st1.position = st.position ∧ st1.current = CTbl.empty ∧
    st1.root.pos = none ∧ st1.root.decor.pre = none ∧ st1.root.decor.suf = none ∧
    (∀ x ∈ nsItems stripCr inp st1.root.items [], x.2.1 = true ∧ x.1 ≤ st.position) ∧
    gkItems inp st1.root.items := by
  rcases finalize_cases st st1 hfin with ⟨hp, _, e⟩ | ⟨pp', key', root', hp, hd, e⟩
  · subst e
    rcases hsh with ⟨_, _, items, imp, sp, a3, a4, a4g, aT⟩ | ⟨pp, key, _, _, _, _, _, _, b1, _⟩
    · simp only []
      rw [a3]
      refine ⟨?_, (by first | rfl | trivial), (by first | rfl | trivial), (by first | rfl | trivial),
        (by first | rfl | trivial), (by first | rfl | trivial), (by first | rfl | trivial),
        (by first | rfl | trivial), ?_, ?_⟩
      · simp only [rootTextO, CTbl.items]
        rw [bodyOkU_ns stripCr inp items a4, entText_root, aT]
        simp [pairsN, sortP, sortG, flatP, CTbl.items]
      · simp only [CTbl.items]
        rw [bodyOkU_ns stripCr inp items a4]
        intro x hx; cases hx
      · exact bodyOkU_gk inp items a4
    · rw [hp] at b1; exact absurd b1.symm (by simp)
  · subst e
    rcases hsh with ⟨_, a2, _⟩ | ⟨pp, key, items, q, lead, trail, sp, SP, b1, b2, b3, b3g, b4, bT⟩
    · rw [a2] at hp; exact absurd hp.symm (by simp)
    · rw [b1] at hp
      obtain ⟨e1, e2⟩ := snoc_inj hp
      subst e1; subst e2
      obtain ⟨p1, p2, p3, p4, p5⟩ := hP
      have hne : st.currentPath ≠ [] := by rw [b1]; simp
      have hq : q = st.position := by
        have := p5 hne
        rw [b2] at this
        simpa [CTbl.pos] using this
      subst hq
      have hcd : st.current.dotted = false := by rw [b2]; rfl
      have hcq : st.current.pos = some st.position := p5 hne
      have hbody : ∀ X, nsItems stripCr inp st.current.items X = [] := by
        intro X; rw [b2]; exact bodyOkU_ns stripCr inp items b3 X
      have hgc : gkItems inp st.current.items := by rw [b2]; exact bodyOkU_gk inp items b3
      obtain ⟨⟨l1, l2, i1, i2⟩, i3, i4⟩ := fin_spineA stripCr inp st.currentIsArray key st.current st.position hcd hcq
        hbody hgc pp st.root root' [] SP b4 hg hd
      have hs := descend_setItems _ (finFn_setItems st.currentIsArray key st.current) pp _ _ _ hd
      have hpre : st.current.decor.pre.isSome = true := by rw [b2]; rfl
      simp only []
      refine ⟨?_, by rw [hs]; simpa using spineA_dotted b4, (by first | rfl | trivial), (by first | rfl | trivial),
        (by first | rfl | trivial), by rw [hs]; exact p1, by rw [hs]; exact p2, by rw [hs]; exact p3, ?_, i4⟩
      · rw [bT]
        simp only [rootTextO]
        rw [entText_tbl_congr stripCr inp st.root root' [] false (by rw [hs]; simp) (by rw [hs]; simp) i3,
          i2, i1, pairsN_append, pairsN_append, pairsN_append]
        have hmax : ∀ y ∈ pairsN l1 ++ pairsN l2, y.1 < st.position := by
          intro y hy
          rw [← pairsN_append] at hy
          obtain ⟨x, hx, e⟩ := mem_pairsN hy
          rw [e]
          exact (p4 x (by rw [i1]; exact hx)).2
        have hsort := sortP_new_max (st.position, entText stripCr inp st.current ([] ++ SP) st.currentIsArray)
          (pairsN l1) (pairsN l2) hmax
        have hone : pairsN [(st.position, st.current.decor.pre.isSome,
            entText stripCr inp st.current ([] ++ SP) st.currentIsArray)]
            = [(st.position, entText stripCr inp st.current ([] ++ SP) st.currentIsArray)] := rfl
        rw [hone, hsort, flatP_append]
        simp [flatP, List.append_assoc]
      · intro x hx
        rw [i2] at hx
        simp only [List.mem_append, List.mem_singleton] at hx
        rcases hx with (hx | hx) | hx
        · have := p4 x (by rw [i1]; exact List.mem_append_left _ hx)
          exact ⟨this.1, Nat.le_of_lt this.2⟩
        · subst hx; exact ⟨hpre, Nat.le_refl _⟩
        · have := p4 x (by rw [i1]; exact List.mem_append_right _ hx)
          exact ⟨this.1, Nat.le_of_lt this.2⟩

/-! ### the header line -/

theorem hdrLineOkA_use (inp : Bytes) (st st1 : CState) (a : Bool) (r rest : Bytes) (ks pp : List CKey) (key : CKey)
    (hok : hdrLineOkA inp st ((if a then [0x5B, 0x5B] else [0x5B]) ++ r) = true)
    (hfin : finalizeTable st = some st1) (hk : ckeyPath inp.length r = .ok ks rest)
    (hsl : splitLast ks = some (pp, key)) : pathOkA a key st1.root pp = true := by
  unfold hdrLineOkA at hok
  rw [hfin] at hok
  simp only [Bool.and_eq_true] at hok
  cases a with
  | true =>
    have h1 := hok.1
    simp only [if_true, List.cons_append, List.nil_append, hdrChkA, hk, hsl] at h1
    exact h1
  | false =>
    have h2 := hok.2
    simp only [Bool.false_eq_true, if_false, List.cons_append, List.nil_append, hdrChkA, hk, hsl] at h2
    exact h2

theorem header_step_A (inp : Bytes) (st st' : CState) (s r3 : Bytes)
    (h : ctableLine inp.length st s = some (st', r3)) (hok : hdrLineOkA inp st s = true)
    (hI : AInvG TrivOK inp st s) : AInvG TrivOK inp st' r3 := by
  have hrest := ctableLine_rest _ _ _ _ _ h
  have herase : Doc.tableLine (eraseState st) s = some (eraseState st', r3) := by
    rw [← ctableLine_erase inp.length, h]; rfl
  obtain ⟨isArr, r, ks, r2, hsr, hk, hlt, ho⟩ := table_frame _ _ _ _ _ h
  clear h
  obtain ⟨ls, T, tr, a1, a2, a3, hsh, hP, hg, a7, a8, a9⟩ := hI
  have hs : s <:+ inp := (List.suffix_append tr s).trans a8
  have hr : r <:+ inp := (hsr ▸ suffix_of_append _ r).trans hs
  have hksG := ckeyPath_GK inp r _ ks hr hk
  -- the state transition, erased
  have hstep : step (eraseState st) (if isArr then .arr (keysOf ks) else .std (keysOf ks)) = some (eraseState st') := by
    cases isArr with
    | false =>
      simp only [Bool.false_eq_true, if_false] at ho ⊢
      show State.onStdHeader (eraseState st) (keysOf ks) = _
      rw [← onStdHeader_erase st ks _ _, ho]; rfl
    | true =>
      simp only [if_true] at ho ⊢
      show State.onArrayHeader (eraseState st) (keysOf ks) = _
      rw [← onArrayHeader_erase st ks _ _, ho]; rfl
  clear herase
  -- the tree side
  have key_fact : ∃ st1 pp key root' SP, finalizeTable st = some st1 ∧ ks = pp ++ [key] ∧
      descend st1.root pp false (if isArr then arrFn key else eraseFn key) = some root' ∧
      SpineA inp isArr key root' pp SP ∧
      st' = { st1 with root := root', trailing := none, position := st1.position + 1, current := .mk [] false false (some (st1.position + 1)) (Decor.new (takeTrailing st1.trailing) (rawBetween inp.length r2 (trailEnd r2))) (some (pos inp.length s, pos inp.length r2)), currentIsArray := isArr, currentPath := ks } ∧
      rootTextO stripCr inp root' = rootTextO stripCr inp st1.root ∧ root'.pos = st1.root.pos ∧
      root'.decor = st1.root.decor ∧ nsItems stripCr inp root'.items [] = nsItems stripCr inp st1.root.items [] ∧
      gkItems inp root'.items := by
    cases isArr with
    | false =>
      simp only [Bool.false_eq_true, if_false] at ho hk hsr ⊢
      unfold onStdHeader at ho
      split at ho
      · rename_i st1 hfin
        obtain ⟨f1, f2, f3, f4, f5, f6, f7, f8, f9, f10⟩ := finalize_A inp st st1 T hfin hsh hP hg
        obtain ⟨pp, key, root', hks, _, hroot, hst'⟩ := startTable_cases _ _ _ _ _ ho
        simp only [] at hroot
        have hsl : splitLast ks = some (pp, key) := by rw [hks]; exact vsplitLast_snoc pp key
        have hpo := hdrLineOkA_use inp st st1 false r _ ks pp key (by simpa [hsr] using hok) hfin hk hsl
        obtain ⟨⟨SP, i1⟩, i2, i3, i4, i5⟩ := start_spineA inp false key (hksG key (by rw [hks]; simp)) pp st1.root root'
          (fun k hk' => hksG k (by rw [hks]; exact List.mem_append_left _ hk')) hpo f10 hroot
        have hs' := descend_setItems _ (startFn_setItems false key) pp _ _ _ hroot
        have hft := i5 rfl
        refine ⟨st1, pp, key, root', SP, hfin, hks, hroot, i1, ?_, ?_, by rw [hs']; simp [CTbl.setItems, CTbl.pos],
          by rw [hs']; simp, i3 stripCr [], i4⟩
        · rw [hst']
          simp only [hft, Option.getD_none, f5]
          rfl
        · unfold rootTextO
          rw [i3 stripCr [], entText_tbl_congr stripCr inp st1.root root' [] false (by rw [hs']; simp) (by rw [hs']; simp) i2]
      · cases ho
    | true =>
      simp only [if_true] at ho hk hsr ⊢
      unfold onArrayHeader at ho
      split at ho
      · rename_i st1 hfin
        obtain ⟨f1, f2, f3, f4, f5, f6, f7, f8, f9, f10⟩ := finalize_A inp st st1 T hfin hsh hP hg
        obtain ⟨pp, key, root', hks, hroot, hst'⟩ := startArrayTable_cases _ _ _ _ _ ho
        simp only [] at hroot
        have hsl : splitLast ks = some (pp, key) := by rw [hks]; exact vsplitLast_snoc pp key
        have hpo := hdrLineOkA_use inp st st1 true r _ ks pp key (by simpa [hsr] using hok) hfin hk hsl
        obtain ⟨⟨SP, i1⟩, i2, i3, i4, i5⟩ := start_spineA inp true key (hksG key (by rw [hks]; simp)) pp st1.root root'
          (fun k hk' => hksG k (by rw [hks]; exact List.mem_append_left _ hk')) hpo f10 hroot
        have hs' := descend_setItems _ (startFn_setItems true key) pp _ _ _ hroot
        refine ⟨st1, pp, key, root', SP, hfin, hks, hroot, i1, ?_, ?_, by rw [hs']; simp [CTbl.setItems, CTbl.pos],
          by rw [hs']; simp, i3 stripCr [], i4⟩
        · rw [hst']
          simp only [f5]
          rfl
        · unfold rootTextO
          rw [i3 stripCr [], entText_tbl_congr stripCr inp st1.root root' [] false (by rw [hs']; simp) (by rw [hs']; simp) i2]
      · cases ho
  obtain ⟨st1, pp, key, root', SP, hfin, hks, hroot, i1, hst', hroottext, i3, i4, i5, i6⟩ := key_fact
  obtain ⟨f1, f2, f3, f4, f5, f6, f7, f8, f9, f10⟩ := finalize_A inp st st1 T hfin hsh hP hg
  obtain ⟨s1, s2, s3⟩ := spineA_facts inp isArr key pp root' SP i1
  have hSPk : keysOf SP = keysOf ks := by rw [s1, hks]
  obtain ⟨tl, line, l1, l2, l3, l4⟩ := hdr_line_q inp isArr s r r2 tr ks SP st.trailing hsr hk a7 a8 a9 hSPk s2 s3
  subst hst'
  refine ⟨ls ++ (tl ++ [(line, false)]), T ++ renderLinesQ (tl ++ [(line, false)]), [],
    lines_wf ls tl line a1 l1 l2, by rw [renderLinesQ_append ls, a2], run_line ls tl line _ _ _ a3 l1 l3 hstep,
    ?_, ?_, i6, Or.inl ⟨rfl, rfl⟩, by simpa using hrest.trans hs, triv_nil⟩
  · right
    refine ⟨pp, key, [], st1.position + 1, takeTrailing st1.trailing, rawBetween inp.length r2 (trailEnd r2),
      some (pos inp.length s, pos inp.length r2), SP, hks, rfl, rfl, bodyG_nil inp, i1, ?_⟩
    simp only []
    rw [hroottext, f1, entText_explicit, f3, ← l4]
    simp [valuesTbl, encodeBody]
  · refine ⟨by simp only []; rw [i3]; exact f6, by simp only []; rw [i4]; exact f7,
      by simp only []; rw [i4]; exact f8, ?_, fun _ => rfl⟩
    simp only []
    rw [i5]
    intro x hx
    have := f9 x hx
    exact ⟨this.1, by omega⟩

/-! ### the key/value line -/

theorem kvLineOkA_use (inp : Bytes) (st : CState) (s r1 r2 : Bytes) (ks path : List CKey) (key : CKey)
    (v : CVal) (hok : kvLineOkA inp st s = true) (hk : ckeyPath inp.length s = .ok ks (0x3D :: r1))
    (hv : cvalue inp.length (3 * r1.length + 4) (ks.length - 1) (dropWs r1) = .ok v r2)
    (hsl : splitLast ks = some (path, key)) : dottedOkA st.current path = true := by
  unfold kvLineOkA at hok
  rw [hk] at hok
  simp only [] at hok
  rw [hv] at hok
  simp only [hsl] at hok
  exact hok

theorem keyval_step_A (inp : Bytes) (st st' : CState) (s r3 : Bytes)
    (h : ckeyvalLine inp.length st s = some (st', r3)) (hok : kvLineOkA inp st s = true)
    (hI : AInvG TrivOK inp st s) : AInvG TrivOK inp st' r3 := by
  obtain ⟨ls, T, tr, a1, a2, a3, hsh, hP, hg, a7, a8, a9⟩ := hI
  have hs : s <:+ inp := (List.suffix_append tr s).trans a8
  have hrest := ckeyvalLine_rest inp _ _ _ _ hs h
  obtain ⟨ks, r1, v, r2, path, key, c, hk, hv, hlt, hsl, hd, he⟩ := keyval_frame _ _ _ _ _ h
  have hlim := ckeyvalLine_limit _ _ _ _ _ _ h hk
  clear h
  subst he
  have hdo := kvLineOkA_use inp st s r1 r2 ks path key v hok hk hv hsl
  have hks := vsplitLast_some _ _ _ hsl
  have hksG := ckeyPath_GK inp s _ ks hs hk
  have hpathG : ∀ k ∈ path, GKey inp k := fun k hk' => hksG k (by rw [hks]; exact List.mem_append_left _ hk')
  have hr1' : dropWs r1 <:+ inp :=
    ((Cst03.dropWs_suffix r1).trans ((List.suffix_cons _ r1).trans (ckeyPath_suffix _ _ _ _ hk).1)).trans hs
  obtain ⟨_, _, _, _, hund0, _, _⟩ := cvalue_tiling_dotted id inp (FixOn.id inp) _ _ _ _ _ hr1' hv
  have hund : undotted (kvVal inp.length v r1 r2) = true := by
    unfold kvVal; rw [undotted_setDecor]; exact hund0
  -- the current table
  have hcurshape : ∃ items imp p dec sp, st.current = .mk items imp false p dec sp ∧ bodyOkU items = true ∧
      bodyG inp items := by
    rcases hsh with ⟨_, _, items, imp, sp, h1, h2, h3, _⟩ | ⟨pp, key', items, q, lead, trail, sp, SP, _, h1, h2, h3, _⟩
    · exact ⟨items, imp, none, {}, sp, h1, h2, h3⟩
    · exact ⟨items, false, some q, _, sp, h1, h2, h3⟩
  obtain ⟨items, imp, p, dec, sp, hcur, hbody, hbodyG⟩ := hcurshape
  have hcm := kvCur_mk st (kvVal inp.length v r1 r2) items imp false p dec sp hcur
  have hci : (kvCur st (kvVal inp.length v r1 r2)).items = items := by
    rw [(kvCur_fields st (kvVal inp.length v r1 r2)).1, hcur]; rfl
  have hdo' : dottedOkA (kvCur st (kvVal inp.length v r1 r2)) path = true := by
    rw [dottedOkA_items st.current _ (by rw [hci, hcur]; rfl)]; exact hdo
  obtain ⟨k1, k2, k2g, X, k3, k4, k5⟩ := kv_descendA inp (kvFn path (kvKey st key) (kvVal inp.length v r1 r2)) (kvKey st key)
    (kvVal inp.length v r1 r2) hund (fun p p' hp => (kvFn_facts _ _ _ _ _ hp).1) path _ c [] hdo'
    (by rw [hci]; exact hbody) (by rw [hci]; exact hbodyG) hpathG hd
  obtain ⟨ci, hci2⟩ : ∃ ci, c.items = ci := ⟨_, rfl⟩
  rw [hci2] at k1 k2 k2g k3
  rw [hci] at k3
  simp only [List.nil_append] at k3
  have hc' : c = .mk ci imp false p dec (kvCur st (kvVal inp.length v r1 r2)).span := by
    rw [k1]
    conv => lhs; rw [hcm]
    simp [CTbl.setItems, CTbl.dotted, CTbl.implicit, CTbl.pos, CTbl.decor, CTbl.span]
  clear k1
  -- the line
  obtain ⟨tl, line, l1, l2, l3, l4⟩ := kv_line_q inp st s r1 r2 tr ks path X key v hk hv hsl hlim a7 a8 a9 k4 k5
  -- the transition, erased
  have hstep : step (eraseState st) (.kv (keysOf path) key.key (eraseVal v))
      = some (eraseState { st with current := c, trailing := none }) := by
    show State.onKeyval (eraseState st) (keysOf path) key.key (eraseVal v) = _
    have := onKeyval_erase st path key (kvVal inp.length v r1 r2)
    rw [onKeyval_eq, hd] at this
    unfold kvVal at this
    rw [eraseVal_setDecor] at this
    rw [← this]; rfl
  have hbodytext : encodeBody stripCr inp (valuesTbl ci []) =
      encodeBody stripCr inp (valuesTbl items []) ++ renderLinesQ (tl ++ [(line, false)]) := by
    rw [k3, encodeBody_append, ← l4]
    simp only [encodeBody, List.append_assoc, List.append_nil]
  subst hc'
  refine ⟨ls ++ (tl ++ [(line, false)]), T ++ renderLinesQ (tl ++ [(line, false)]), [],
    lines_wf ls tl line a1 l1 l2, by rw [renderLinesQ_append ls, a2], run_line ls tl line _ _ _ a3 l1 l3 hstep,
    ?_, ?_, hg, Or.inl ⟨rfl, rfl⟩, by simpa using hrest.trans hs, triv_nil⟩
  · rcases hsh with ⟨b1, b2, items0, imp0, sp0, b3, b4, b5, bT⟩ | ⟨pp, key', items0, q, lead, trail, sp0, SP, b1, b2, b3, b3g, b4, bT⟩
    · left
      rw [hcur] at b3
      injection b3 with e1 e2 e3 e4 e5 e6
      subst e1; subst e2; subst e4; subst e5
      refine ⟨b1, b2, ci, imp, _, rfl, k2, k2g, ?_⟩
      rw [bT, hbodytext]
    · right
      rw [hcur] at b2
      injection b2 with e1 e2 e3 e4 e5 e6
      subst e1; subst e2; subst e4; subst e5
      refine ⟨pp, key', ci, q, lead, trail, _, SP, b1, rfl, k2, k2g, b4, ?_⟩
      simp only []
      rw [bT, hcur, entText_explicit, entText_explicit, hbodytext]
      simp only [List.append_assoc]
  · obtain ⟨p1, p2, p3, p4, p5⟩ := hP
    refine ⟨p1, p2, p3, p4, ?_⟩
    intro hne
    have := p5 hne
    rw [hcur] at this
    exact this

end TomlVerif.Lemmas.Tiling03More
