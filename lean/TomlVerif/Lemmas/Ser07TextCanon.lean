import TomlVerif.Lemmas.Ser07TextRoutes
/-! C07 at the TEXT level, part 5: the formatted text does not depend on NaN payloads
    (`fmtText disp p (canonKVs kvs) = fmtText disp p kvs`), because `toml_write` prints every NaN as `nan` / `-nan`. -/
namespace TomlVerif.Lemmas.Ser07Text
open TomlVerif TomlVerif.Model TomlVerif.Model.Ser TomlVerif.Spec TomlVerif.Spec.Serde
open TomlVerif.Model.TomlValue TomlVerif.Spec.Encode06
open TomlVerif.Lemmas.RoundTrip17 TomlVerif.Lemmas.Ser07TextF

mutual
theorem tvOf_vOf : ∀ t : TV, tvOf (vOf t) = t
  | .str _ => rfl
  | .int _ => rfl
  | .float _ => rfl
  | .bool _ => rfl
  | .dt _ => rfl
  | .arr l => by rw [vOf, tvOf, tvList_vOfList l]
  | .tbl items => by rw [vOf, tvOf, tvKVs_vOfPs items]
theorem tvList_vOfList : ∀ l : List TV, tvList (vOfList l) = l
  | [] => rfl
  | t :: r => by rw [vOfList, tvList, tvOf_vOf t, tvList_vOfList r]
theorem tvKVs_vOfPs : ∀ l : List (Bytes × TV), tvKVs (vOfPs l) = l
  | [] => rfl
  | (k, t) :: r => by rw [vOfPs, tvKVs, tvOf_vOf t, tvKVs_vOfPs r]
end

/-- NaNs reduced to their sign, on `toml::Value`-shaped trees -/
def canonT (t : TV) : TV := tvOf (canonV (vOf t))
def cPair (e : Bytes × TV) : Bytes × TV := (e.1, canonT e.2)
def cStmt : TomlValue.Stmt → TomlValue.Stmt
  | .kv k v => .kv k (canonT v)
  | s => s

theorem canonT_tvOf (v : V) : canonT (tvOf v) = tvOf (canonV v) := by unfold canonT; rw [vOf_tvOf]

theorem canonT_list : ∀ l : List TV, tvList (canonVs (vOfList l)) = l.map canonT
  | [] => rfl
  | t :: r => by simp only [vOfList, canonVs, tvList, List.map_cons, canonT_list r]; rfl
theorem canonT_pairs : ∀ l : List (Bytes × TV), tvKVs (canonKVs (vOfPs l)) = l.map cPair
  | [] => rfl
  | (k, t) :: r => by simp only [vOfPs, canonKVs, tvKVs, List.map_cons, canonT_pairs r]; rfl

theorem canonT_arr (l : List TV) : canonT (.arr l) = .arr (l.map canonT) := by
  show tvOf (canonV (vOf (.arr l))) = _
  rw [vOf, canonV, tvOf, canonT_list]
theorem canonT_tbl (items : List (Bytes × TV)) : canonT (.tbl items) = .tbl (items.map cPair) := by
  show tvOf (canonV (vOf (.tbl items))) = _
  rw [vOf, canonV, tvOf, canonT_pairs]

theorem tvKVs_canon (kvs : List (Bytes × V)) : tvKVs (canonKVs kvs) = (tvKVs kvs).map cPair := by
  have := canonT_pairs (tvKVs kvs)
  rwa [vOfPs_tvKVs] at this

/-! ## rendering -/

mutual
theorem render_canon (fl : FloatText) (hfl : ∀ b, fl (canonFloat b) = fl b) (p : Bool) :
    ∀ t : TV, renderVal fl p (canonT t) = renderVal fl p t
  | .str _ => rfl
  | .int _ => rfl
  | .float b => by
    have : canonT (.float b) = .float (canonFloat b) := rfl
    rw [this, renderVal, renderVal]; exact hfl b
  | .bool _ => rfl
  | .dt _ => rfl
  | .arr l => by
    rw [canonT_arr, renderVal, renderVal, List.length_map, renderElems_canon fl hfl p l true, renderElemsMl_canon fl hfl p l]
  | .tbl items => by
    rw [canonT_tbl, renderVal, renderVal, renderInline_canon fl hfl p items true]
theorem renderElems_canon (fl : FloatText) (hfl : ∀ b, fl (canonFloat b) = fl b) (p : Bool) :
    ∀ (l : List TV) (first : Bool), renderElems fl p first (l.map canonT) = renderElems fl p first l
  | [], _ => rfl
  | t :: r, first => by
    rw [List.map_cons, renderElems, renderElems, render_canon fl hfl p t, renderElems_canon fl hfl p r false]
theorem renderElemsMl_canon (fl : FloatText) (hfl : ∀ b, fl (canonFloat b) = fl b) (p : Bool) :
    ∀ l : List TV, renderElemsMl fl p (l.map canonT) = renderElemsMl fl p l
  | [] => rfl
  | t :: r => by
    rw [List.map_cons, renderElemsMl, renderElemsMl, render_canon fl hfl p t, renderElemsMl_canon fl hfl p r]
theorem renderInline_canon (fl : FloatText) (hfl : ∀ b, fl (canonFloat b) = fl b) (p : Bool) :
    ∀ (l : List (Bytes × TV)) (first : Bool), renderInline fl p first (l.map cPair) = renderInline fl p first l
  | [], _ => rfl
  | (k, t) :: r, first => by
    have e : ((k, t) :: r).map cPair = (k, canonT t) :: r.map cPair := rfl
    rw [e, renderInline, renderInline, render_canon fl hfl p t, renderInline_canon fl hfl p r false]
    simp
end

theorem renderStmts_canon (fl : FloatText) (hfl : ∀ b, fl (canonFloat b) = fl b) (p : Bool) :
    ∀ (l : List TomlValue.Stmt) (first : Bool), renderStmts fl p first (l.map cStmt) = renderStmts fl p first l
  | [], _ => rfl
  | .header path :: r, first => by
    simp only [List.map_cons, cStmt, renderStmts, renderStmts_canon fl hfl p r]
  | .aotHeader path :: r, first => by
    simp only [List.map_cons, cStmt, renderStmts, renderStmts_canon fl hfl p r]
  | .kv k v :: r, first => by
    simp only [List.map_cons, cStmt, renderStmts, renderStmts_canon fl hfl p r, render_canon fl hfl p v]

/-! ## the statement list -/

theorem isTable_canon (t : TV) : (canonT t).isTable = t.isTable := by
  cases t with
  | arr l => rw [canonT_arr]; rfl
  | tbl items => rw [canonT_tbl]; rfl
  | _ => rfl

theorem isAot_canon (l : List TV) : isAotList (l.map canonT) = isAotList l := by
  unfold isAotList
  congr 1
  · cases l <;> rfl
  · rw [List.all_map]
    congr 1
    funext t
    exact isTable_canon t

theorem kind_canon (t : TV) : kindOf (canonT t) = kindOf t := by
  cases t with
  | arr l => rw [canonT_arr, kindOf, kindOf, isAot_canon]
  | tbl items => rw [canonT_tbl]; rfl
  | _ => rfl

theorem ownValues_canon (items : List (Bytes × TV)) : ownValues (items.map cPair) = (ownValues items).map cPair := by
  unfold ownValues
  rw [List.filter_map]
  congr 1
  apply List.filter_congr
  intro e _
  simp only [Function.comp, cPair, kind_canon]

theorem ownKvs_canon (items : List (Bytes × TV)) : ownKvs (items.map cPair) = (ownKvs items).map cStmt := by
  unfold ownKvs
  rw [ownValues_canon, List.map_map, List.map_map]
  rfl

theorem headerOf_canon (path : List Bytes) (a : Bool) (items : List (Bytes × TV)) :
    headerOf path a (items.map cPair) = (headerOf path a items).map cStmt := by
  unfold headerOf
  rw [ownValues_canon]
  simp only [List.isEmpty_map]
  split
  · rfl
  · split
    · rfl
    · split <;> rfl

theorem tableStmts_canon (path : List Bytes) (a : Bool) (items : List (Bytes × TV)) (subs : List TomlValue.Stmt) :
    tableStmts path a (items.map cPair) (subs.map cStmt) = (tableStmts path a items subs).map cStmt := by
  unfold tableStmts
  rw [headerOf_canon, ownKvs_canon, List.map_append, List.map_append]

mutual
theorem emitSubs_canon : ∀ (items : List (Bytes × TV)) (path : List Bytes),
    emitSubs path (items.map cPair) = (emitSubs path items).map cStmt
  | [], _ => rfl
  | (k, t) :: r, path => by
    have e : ((k, t) :: r).map cPair = (k, canonT t) :: r.map cPair := rfl
    rw [e, emitSubs, emitSubs, List.map_append, emitItem_canon t (path ++ [k]), emitSubs_canon r path]
theorem emitItem_canon : ∀ (t : TV) (path : List Bytes), emitItem path (canonT t) = (emitItem path t).map cStmt
  | .tbl items, path => by
    rw [canonT_tbl, emitItem, emitItem, emitSubs_canon items path, tableStmts_canon]
  | .arr l, path => by
    rw [canonT_arr, emitItem, emitItem, isAot_canon]
    split
    · exact emitAot_canon l path
    · rfl
  | .str _, _ => rfl
  | .int _, _ => rfl
  | .float _, _ => rfl
  | .bool _, _ => rfl
  | .dt _, _ => rfl
theorem emitAot_canon : ∀ (l : List TV) (path : List Bytes), emitAot path (l.map canonT) = (emitAot path l).map cStmt
  | [], _ => rfl
  | .tbl items :: r, path => by
    rw [List.map_cons, canonT_tbl, emitAot, emitAot, List.map_append, emitSubs_canon items path, tableStmts_canon,
      emitAot_canon r path]
  | .arr l :: r, path => by
    rw [List.map_cons, canonT_arr]; simp only [emitAot]; exact emitAot_canon r path
  | .str _ :: r, path => by
    rw [List.map_cons]; simp only [emitAot]; exact emitAot_canon r path
  | .int _ :: r, path => by
    rw [List.map_cons]; simp only [emitAot]; exact emitAot_canon r path
  | .float b :: r, path => by
    have : canonT (.float b) = .float (canonFloat b) := rfl
    rw [List.map_cons, this]; simp only [emitAot]; exact emitAot_canon r path
  | .bool _ :: r, path => by
    rw [List.map_cons]; simp only [emitAot]; exact emitAot_canon r path
  | .dt _ :: r, path => by
    rw [List.map_cons]; simp only [emitAot]; exact emitAot_canon r path
end

/-- **the formatted text does not depend on NaN payloads** -/
theorem fmtText_canon (disp : FloatDisp) (p : Bool) (kvs : List (Bytes × V)) :
    fmtText disp p (canonKVs kvs) = fmtText disp p kvs := by
  unfold fmtText
  rw [tvKVs_canon, ownValues_canon, List.isEmpty_map]
  unfold emitDoc
  rw [emitSubs_canon, tableStmts_canon, renderStmts_canon (flOf disp) (flOf_canon disp)]

/-- the text printed for a serialized table, read back by the document parser: the table in document order,
    NaNs reduced to their sign -/
theorem parse_fmtText (disp : FloatDisp) (pretty : Bool) (kvs : List (Bytes × V))
    (hn : NodupSKVs kvs ∧ (kvs.map Prod.fst).Nodup) (hl : LeavesOkSKVs disp kvs) (hd : depthSKVs kvs < Value.LIMIT) :
    (Doc.parseDocument (fmtText disp pretty kvs)).map dataTbl = some (docOrder (canonKVs kvs)) := by
  rw [← fmtText_canon]
  exact parse_fmtText_canon disp pretty kvs hn hl hd

end TomlVerif.Lemmas.Ser07Text
