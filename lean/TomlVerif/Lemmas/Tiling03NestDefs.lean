import TomlVerif.Lemmas.Tiling03NestText
/-! C03, nested documents — the class: a checker that follows the parse run and, at every
    `descend` step that finds an existing table, compares the spelling of the key just read with
    the spelling of the stored key (the only one the printer will see). -/
namespace TomlVerif.Lemmas.Tiling03Nest
open TomlVerif TomlVerif.Spec TomlVerif.Model TomlVerif.Model.Strings TomlVerif.Model.Value
open TomlVerif.Model.Cst TomlVerif.Model.Encode TomlVerif.Lemmas.Cst03 TomlVerif.Lemmas.Tiling03
open TomlVerif.Lemmas.Tiling03Hdr

/-- the texts of a decor (what the printer can see of it) -/
def decTxt (inp : Bytes) (d : Decor) : Option Bytes × Option Bytes :=
  (d.pre.map (rawText inp), d.suf.map (rawText inp))

/-- same spelling as an inner segment of a key path: the key text and the white space around it
    inside the path (`dotted_decor`) -/
def sameSeg (inp : Bytes) (k k' : CKey) : Bool :=
  rawText inp k.repr == rawText inp k'.repr && decTxt inp k.dotted == decTxt inp k'.dotted

/-- same spelling as the last segment of a key path: also the white space around the whole path
    (`leaf_decor`) -/
def sameLeaf (inp : Bytes) (k k' : CKey) : Bool :=
  sameSeg inp k k' && decTxt inp k.leaf == decTxt inp k'.leaf

/-- the entry for `k` when it is the last item of the list (and the only one for `k`) -/
def lastEntry (k : Bytes) (items : Items) : Option (Items × CKey × CItem) :=
  match splitLast items with
  | some (init, (k', it)) => if k'.key == k && (clookup k init).isNone then some (init, k', it) else none
  | none => none

/-- the header check, on the root after `finalize_table`, for a header with parent path `pp` and
    last key `key` (`a`: `[[…]]`): every segment that names an existing table names the LAST item
    of its parent (so the new section follows everything below it: pre-order), is spelled like the
    stored key, and is not a dotted-key table; the last key is new, or (for `[[…]]`) names the last
    item, an array of tables, with the same spelling -/
def pathOk (inp : Bytes) (a : Bool) (key : CKey) : CTbl → List CKey → Bool
  | t, [] => !t.dotted && (match clookup key.key t.items with
      | none => true
      | some _ => a && (match lastEntry key.key t.items with
          | some (_, k', .aot _ _) => sameLeaf inp key k'
          | _ => false))
  | t, k :: ks => !t.dotted && (match clookup k.key t.items with
      | none => true
      | some _ => match lastEntry k.key t.items with
          | some (_, k', .table sub) => sameSeg inp k k' && pathOk inp a key sub ks
          | some (_, k', .aot ts _) => sameSeg inp k k' &&
              (match ts.reverse with
               | l :: _ => pathOk inp a key l ks
               | [] => false)
          | _ => false)

mutual
/-- a table body as key/value lines build it: simple values and dotted-key tables of the same -/
def bodyOk : List (CKey × CItem) → Bool
  | [] => true
  | (_, it) :: r =>
    match it with
    | .value v => simpleVal v && bodyOk r
    | .table t => bodyTbl t && bodyOk r
    | .aot _ _ => false
def bodyTbl : CTbl → Bool
  | .mk items _ dot _ _ _ => dot && bodyOk items
end

/-- the dotted-key check, on the current table, for a key/value line with key path `path`:
    every prefix segment that names an existing (dotted) table names the LAST item of its parent
    (adjacent dotted keys) and is spelled like the stored key -/
def dottedOk (inp : Bytes) : CTbl → List CKey → Bool
  | _, [] => true
  | t, k :: ks => match clookup k.key t.items with
      | none => true
      | some _ => match lastEntry k.key t.items with
          | some (_, k', .table sub) => sameSeg inp k k' && sub.dotted && dottedOk inp sub ks
          | _ => false

/-- the header check for one reading of the line (`a`: as `[[…]]`): `r` is the text after the
    opening bracket(s), `st1` the state after `finalize_table` -/
def hdrChk (inp : Bytes) (a : Bool) (st1 : CState) (r : Bytes) : Bool :=
  match ckeyPath inp.length r with
  | .ok ks _ =>
    (match splitLast ks with
     | some (pp, key) => pathOk inp a key st1.root pp
     | none => true)
  | _ => true

/-- the check of a header line (both readings of the line are checked; for `[[a]]` the reading
    as `[` … `]` has no key path, so only the reading `ctableLine` takes counts) -/
def hdrLineOk (inp : Bytes) (st : CState) (s : Bytes) : Bool :=
  match finalizeTable st with
  | none => true
  | some st1 =>
    (match s with
     | 0x5B :: 0x5B :: r => hdrChk inp true st1 r
     | _ => true) &&
    (match s with
     | 0x5B :: r => hdrChk inp false st1 r
     | _ => true)

/-- the check of a key/value line; `dot`: dotted keys are admitted -/
def kvLineOk (inp : Bytes) (dot : Bool) (st : CState) (s : Bytes) : Bool :=
  match ckeyPath inp.length s with
  | .ok ks (0x3D :: r1) =>
    (match cvalue inp.length (3 * r1.length + 4) (ks.length - 1) (dropWs r1) with
     | .ok v _ =>
       simpleVal v &&
       (match splitLast ks with
        | some (path, _) => (dot || path.isEmpty) && dottedOk inp st.current path
        | none => true)
     | _ => true)
  | _ => true

/-- the run checker: `clines` with the line checks (the control flow is that of `clines`) -/
def runOk (inp : Bytes) (dot : Bool) : Nat → CState → Bytes → Bool
  | 0, _, _ => true
  | fuel + 1, st, s =>
    let n := inp.length
    match s with
    | [] => true
    | b :: r =>
      if b == 0x23 then
        let r1 := dropComment r
        match r1 with
        | [] => true
        | _ => match newline? r1 with
          | some r2 =>
            let (st', r3) := parseWs n (onWs st (pos n s) (pos n r2)) r2
            runOk inp dot fuel st' r3
          | none => true
      else if b == 0x5B then
        hdrLineOk inp st s &&
        (match ctableLine n st s with
         | some (st', r1) =>
           let (st'', r2) := parseWs n st' r1
           runOk inp dot fuel st'' r2
         | none => true)
      else if b == 0x0A || b == 0x0D then
        match newline? s with
        | some r1 =>
          let (st', r2) := parseWs n (onWs st (pos n s) (pos n r1)) r1
          runOk inp dot fuel st' r2
        | none => true
      else
        kvLineOk inp dot st s &&
        (match ckeyvalLine n st s with
         | some (st', r1) =>
           let (st'', r2) := parseWs n st' r1
           runOk inp dot fuel st'' r2
         | none => true)

/-- the source-side class: the checked run of `parse_document` -/
def nestRun (dot : Bool) (s : Bytes) : Bool :=
  let n := s.length
  let s0 := Doc.stripBom s
  let (st0, s1) := parseWs n {} s0
  runOk s dot (s1.length + 1) st0 s1

end TomlVerif.Lemmas.Tiling03Nest
