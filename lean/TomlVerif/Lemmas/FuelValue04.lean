import TomlVerif.Lemmas.Fuel04
import TomlVerif.Lemmas.LenScalars04
/-! Fuel is never the reason for a rejection, part 2: the value parser (`value`, `arrayValues`,
    `arrayElems`, `inlineKeyvals`) and the statement loop. -/
namespace TomlVerif.Lemmas.FuelValue04
open TomlVerif TomlVerif.Spec TomlVerif.Model TomlVerif.Model.Strings TomlVerif.Model.Value
open TomlVerif.Lemmas.Fuel04 TomlVerif.Lemmas.LenScalars04
open TomlVerif.Model.State TomlVerif.Model.Doc

theorem res_map_ok {α β} (f : α → β) (x : Res α) (v : β) (r : Bytes) (h : x.map f = .ok v r) : ∃ a, x = .ok a r := by
  cases x with
  | ok a r' => simp [Res.map] at h; exact ⟨a, by rw [h.2]⟩
  | bt => simp [Res.map] at h
  | cut => simp [Res.map] at h

theorem keyPathAux_len : ∀ (f : Nat) (s : Bytes) (acc ks : List Bytes) (r : Bytes),
    keyPathAux f s acc = .ok ks r → r.length < s.length := by
  intro f
  induction f with
  | zero => intro s acc ks r h; simp [keyPathAux] at h
  | succ g ih =>
    intro s acc ks r h
    unfold keyPathAux at h
    cases hk : Key.simpleKey (dropWs s) with
    | bt => rw [hk] at h; cases h
    | cut => rw [hk] at h; cases h
    | ok k r0 =>
      rw [hk] at h
      simp only [] at h
      have h1 := simpleKey_len _ _ _ hk
      have h2 := dropWs_len s
      have h3 := dropWs_len r0
      split at h
      · rename_i r2 heq
        have h4 : (dropWs r0).length = r2.length + 1 := by rw [heq]; simp
        cases hr : keyPathAux g r2 (acc ++ [k]) with
        | bt => rw [hr] at h; simp only [] at h; injection h with _ h; subst h; simp; omega
        | cut => rw [hr] at h; cases h
        | ok ks' r' =>
          rw [hr] at h
          simp only [] at h
          injection h with _ h; subst h
          have := ih _ _ _ _ hr
          omega
      · injection h with _ h; subst h; omega

theorem keyPath_len (s : Bytes) (ks : List Bytes) (r : Bytes) (h : keyPath s = .ok ks r) : r.length < s.length := by
  unfold keyPath at h
  cases hk : keyPathAux (s.length + 1) s [] with
  | bt => rw [hk] at h; cases h
  | cut => rw [hk] at h; cases h
  | ok ks' r' =>
    rw [hk] at h
    simp only [] at h
    split at h
    · cases h
    · injection h with _ h; subst h; exact keyPathAux_len _ _ _ _ _ hk

/-- the four loops of the value parser never return more input than they were given -/
def LenGoal (f : Nat) : Prop :=
  (∀ d s v r, value f d s = .ok v r → r.length ≤ s.length) ∧
  (∀ d s vs r, arrayValues f d s = .ok vs r → r.length ≤ s.length) ∧
  (∀ d s acc vs r, arrayElems f d s acc = .ok vs r → r.length ≤ s.length) ∧
  (∀ d s acc kvs r, inlineKeyvals f d s acc = .ok kvs r → r.length ≤ s.length)

theorem value_len_step (g : Nat) (ih : LenGoal g) :
    ∀ d s v r, value (g + 1) d s = .ok v r → r.length ≤ s.length := by
  obtain ⟨ihV, ihAV, ihAE, ihIK⟩ := ih
  intro d s v r h
  unfold value at h
  split at h
  · cases h
  · rename_i b t
    split at h
    · obtain ⟨a, ha⟩ := res_map_ok _ _ _ _ h
      exact Nat.le_of_lt (string_len _ _ _ ha)
    · split at h
      · split at h
        · cases h
        · split at h
          · rename_i vs r1 hav
            have := ihAV _ _ _ _ hav
            split at h
            · injection h with _ h; subst h
              simp only [List.length_cons] at this ⊢; omega
            · cases h
          · cases h
      · split at h
        · split at h
          · cases h
          · split at h
            · rename_i kvs r1 hik
              have := ihIK _ _ _ _ _ hik
              split at h
              · cases h
              · split at h
                · rename_i r2 heq
                  injection h with _ h; subst h
                  have h3 := dropWs_len r1
                  rw [heq] at h3
                  simp only [List.length_cons] at h3 ⊢; omega
                · cases h
            · cases h
        · split at h
          · split at h
            · rename_i dtv r1 hdt
              injection h with _ h; subst h
              exact dateTime_len _ _ _ hdt
            · cases h
            · split at h
              · rename_i bits r1 hfl
                injection h with _ h; subst h
                exact float_len _ _ _ hfl
              · cases h
              · obtain ⟨a, ha⟩ := res_map_ok _ _ _ _ h
                exact integer_len _ _ _ ha
          · split at h
            · obtain ⟨a, ha⟩ := res_map_ok _ _ _ _ h
              exact integer_len _ _ _ ha
            · split at h
              · obtain ⟨a, ha⟩ := res_map_ok _ _ _ _ h
                exact float_len _ _ _ ha
              · split at h
                · obtain ⟨a, ha⟩ := res_map_ok _ _ _ _ h
                  exact keyword_len _ _ _ ha
                · split at h
                  · obtain ⟨a, ha⟩ := res_map_ok _ _ _ _ h
                    exact keyword_len _ _ _ ha
                  · split at h
                    · split at h
                      · rename_i r1 hsw
                        injection h with _ h; subst h
                        exact startsWith_len _ _ _ hsw
                      · cases h
                    · split at h
                      · split at h
                        · rename_i r1 hsw
                          injection h with _ h; subst h
                          exact startsWith_len _ _ _ hsw
                        · cases h
                      · cases h


theorem arrayValues_len_step (g : Nat) (ih : LenGoal g) :
    ∀ d s vs r, arrayValues (g + 1) d s = .ok vs r → r.length ≤ s.length := by
  obtain ⟨ihV, ihAV, ihAE, ihIK⟩ := ih
  intro d s vs r h
  unfold arrayValues at h
  split at h
  · injection h with _ h; subst h; omega
  · cases he : arrayElems g d s [] with
    | bt => rw [he] at h; cases h
    | cut => rw [he] at h; cases h
    | ok vs' r0 =>
      rw [he] at h
      simp only [] at h
      have h1 := ihAE _ _ _ _ _ he
      split at h
      · rename_i r2 hw
        injection h with _ h; subst h
        have h2 := wcn_len _ _ _ hw
        split at h2
        · omega
        · split at h2
          · simp only [List.length_cons] at h1; omega
          · omega
      · cases h

theorem arrayElems_len_step (g : Nat) (ih : LenGoal g) :
    ∀ d s acc vs r, arrayElems (g + 1) d s acc = .ok vs r → r.length ≤ s.length := by
  obtain ⟨ihV, ihAV, ihAE, ihIK⟩ := ih
  intro d s acc vs r h
  unfold arrayElems at h
  cases hw : wsCommentNewline (s.length + 1) s with
  | none => rw [hw] at h; simp only [] at h; injection h with _ h; subst h; omega
  | some s1 =>
    rw [hw] at h
    simp only [] at h
    have h1 := wcn_len _ _ _ hw
    cases hv : value g d s1 with
    | cut => rw [hv] at h; cases h
    | bt => rw [hv] at h; simp only [] at h; injection h with _ h; subst h; omega
    | ok v s2 =>
      rw [hv] at h
      simp only [] at h
      have h2 := ihV _ _ _ _ hv
      cases hw2 : wsCommentNewline (s2.length + 1) s2 with
      | none => rw [hw2] at h; simp only [] at h; injection h with _ h; subst h; omega
      | some s3 =>
        rw [hw2] at h
        simp only [] at h
        have h3 := wcn_len _ _ _ hw2
        split at h
        · rename_i s4
          simp only [List.length_cons] at h3
          cases he : arrayElems g d s4 (acc ++ [v]) with
          | bt => rw [he] at h; cases h
          | cut => rw [he] at h; cases h
          | ok vs' r' =>
            rw [he] at h
            simp only [] at h
            have h4 := ihAE _ _ _ _ _ he
            split at h
            · injection h with _ h; subst h; simp only [List.length_cons]; omega
            · injection h with _ h; subst h; omega
        · injection h with _ h; subst h; omega

theorem inlineKeyvals_len_step (g : Nat) (ih : LenGoal g) :
    ∀ d s acc kvs r, inlineKeyvals (g + 1) d s acc = .ok kvs r → r.length ≤ s.length := by
  obtain ⟨ihV, ihAV, ihAE, ihIK⟩ := ih
  intro d s acc kvs r h
  unfold inlineKeyvals at h
  cases hk : keyPath s with
  | cut => rw [hk] at h; cases h
  | bt => rw [hk] at h; simp only [] at h; injection h with _ h; subst h; omega
  | ok ks r0 =>
    rw [hk] at h
    simp only [] at h
    have h1 := keyPath_len _ _ _ hk
    split at h
    · cases h
    · split at h
      · rename_i r1
        simp only [List.length_cons] at h1
        have h2 := dropWs_len r1
        cases hv : value g (d + (ks.length - 1)) (dropWs r1) with
        | cut => rw [hv] at h; cases h
        | bt => rw [hv] at h; cases h
        | ok v r2 =>
          rw [hv] at h
          simp only [] at h
          have h3 := ihV _ _ _ _ hv
          have h4 := dropWs_len r2
          cases hsl : Value.splitLast ks with
          | none => rw [hsl] at h; cases h
          | some pk =>
            obtain ⟨path, key⟩ := pk
            rw [hsl] at h
            simp only [] at h
            split at h
            · rename_i r4 heq
              have h5 : (dropWs r2).length = r4.length + 1 := by rw [heq]; simp
              cases hi : inlineKeyvals g d r4 (acc ++ [(path, key, v)]) with
              | bt => rw [hi] at h; cases h
              | cut => rw [hi] at h; cases h
              | ok kvs' r5 =>
                rw [hi] at h
                simp only [] at h
                have h6 := ihIK _ _ _ _ _ hi
                split at h
                · injection h with _ h; subst h; omega
                · injection h with _ h; subst h; omega
            · injection h with _ h; subst h; omega
      · cases h

theorem lenGoal : ∀ f, LenGoal f := by
  intro f
  induction f with
  | zero =>
    refine ⟨?_, ?_, ?_, ?_⟩
    · intro d s v r h; simp [value] at h
    · intro d s v r h; simp [arrayValues] at h
    · intro d s acc v r h; simp [arrayElems] at h
    · intro d s acc v r h; simp [inlineKeyvals] at h
  | succ g ih =>
    exact ⟨value_len_step g ih, arrayValues_len_step g ih, arrayElems_len_step g ih, inlineKeyvals_len_step g ih⟩

theorem value_len (f d : Nat) (s : Bytes) (v : Val) (r : Bytes) (h : value f d s = .ok v r) : r.length ≤ s.length :=
  (lenGoal f).1 d s v r h


/-! ## beyond the bound the result does not depend on the fuel -/

/-- with `3 * length + c` fuel (c = 1 for `value`, 3 for `arrayValues`, 2 for `arrayElems`, 3 for
    `inlineKeyvals`) the result is the same as with any other fuel above that bound -/
def FuelGoal (f₁ : Nat) : Prop :=
  (∀ f₂ d s, 3 * s.length + 1 ≤ f₁ → 3 * s.length + 1 ≤ f₂ → value f₁ d s = value f₂ d s) ∧
  (∀ f₂ d s, 3 * s.length + 3 ≤ f₁ → 3 * s.length + 3 ≤ f₂ → arrayValues f₁ d s = arrayValues f₂ d s) ∧
  (∀ f₂ d s acc, 3 * s.length + 2 ≤ f₁ → 3 * s.length + 2 ≤ f₂ → arrayElems f₁ d s acc = arrayElems f₂ d s acc) ∧
  (∀ f₂ d s acc, 3 * s.length + 3 ≤ f₁ → 3 * s.length + 3 ≤ f₂ → inlineKeyvals f₁ d s acc = inlineKeyvals f₂ d s acc)

theorem value_fuel_step (g₁ : Nat) (ih : FuelGoal g₁) :
    ∀ f₂ d s, 3 * s.length + 1 ≤ g₁ + 1 → 3 * s.length + 1 ≤ f₂ → value (g₁ + 1) d s = value f₂ d s := by
  obtain ⟨ihV, ihAV, ihAE, ihIK⟩ := ih
  intro f₂ d s h1 h2
  obtain ⟨g₂, rfl⟩ : ∃ g, f₂ = g + 1 := ⟨f₂ - 1, by omega⟩
  cases s with
  | nil => simp [value]
  | cons b t =>
    simp only [List.length_cons] at h1 h2
    have eAV := ihAV g₂ (d + 1) t (by omega) (by omega)
    have eIK := ihIK g₂ (d + 1) t [] (by omega) (by omega)
    unfold value
    simp only [eAV, eIK]

theorem arrayValues_fuel_step (g₁ : Nat) (ih : FuelGoal g₁) :
    ∀ f₂ d s, 3 * s.length + 3 ≤ g₁ + 1 → 3 * s.length + 3 ≤ f₂ → arrayValues (g₁ + 1) d s = arrayValues f₂ d s := by
  obtain ⟨ihV, ihAV, ihAE, ihIK⟩ := ih
  intro f₂ d s h1 h2
  obtain ⟨g₂, rfl⟩ : ∃ g, f₂ = g + 1 := ⟨f₂ - 1, by omega⟩
  have eAE := ihAE g₂ d s [] (by omega) (by omega)
  unfold arrayValues
  simp only [eAE]

theorem arrayElems_fuel_step (g₁ : Nat) (ih : FuelGoal g₁) :
    ∀ f₂ d s acc, 3 * s.length + 2 ≤ g₁ + 1 → 3 * s.length + 2 ≤ f₂ →
      arrayElems (g₁ + 1) d s acc = arrayElems f₂ d s acc := by
  obtain ⟨ihV, ihAV, ihAE, ihIK⟩ := ih
  intro f₂ d s acc h1 h2
  obtain ⟨g₂, rfl⟩ : ∃ g, f₂ = g + 1 := ⟨f₂ - 1, by omega⟩
  unfold arrayElems
  cases hw : wsCommentNewline (s.length + 1) s with
  | none => rfl
  | some s1 =>
    simp only []
    have l1 := wcn_len _ _ _ hw
    rw [ihV g₂ d s1 (by omega) (by omega)]
    cases hv : value g₂ d s1 with
    | cut => rfl
    | bt => rfl
    | ok v s2 =>
      simp only []
      have l2 := value_len _ _ _ _ _ hv
      cases hw2 : wsCommentNewline (s2.length + 1) s2 with
      | none => rfl
      | some s3 =>
        simp only []
        have l3 := wcn_len _ _ _ hw2
        split
        · rename_i s4
          simp only [List.length_cons] at l3
          rw [ihAE g₂ d s4 _ (by omega) (by omega)]
        · rfl

theorem inlineKeyvals_fuel_step (g₁ : Nat) (ih : FuelGoal g₁) :
    ∀ f₂ d s acc, 3 * s.length + 3 ≤ g₁ + 1 → 3 * s.length + 3 ≤ f₂ →
      inlineKeyvals (g₁ + 1) d s acc = inlineKeyvals f₂ d s acc := by
  obtain ⟨ihV, ihAV, ihAE, ihIK⟩ := ih
  intro f₂ d s acc h1 h2
  obtain ⟨g₂, rfl⟩ : ∃ g, f₂ = g + 1 := ⟨f₂ - 1, by omega⟩
  unfold inlineKeyvals
  cases hk : keyPath s with
  | cut => rfl
  | bt => rfl
  | ok ks r =>
    simp only []
    have l1 := keyPath_len _ _ _ hk
    split
    · rfl
    · split
      · rename_i r1
        simp only [List.length_cons] at l1
        have l2 := dropWs_len r1
        rw [ihV g₂ _ (dropWs r1) (by omega) (by omega)]
        cases hv : value g₂ (d + (ks.length - 1)) (dropWs r1) with
        | cut => rfl
        | bt => rfl
        | ok v r2 =>
          simp only []
          have l3 := value_len _ _ _ _ _ hv
          have l4 := dropWs_len r2
          cases hsl : Value.splitLast ks with
          | none => rfl
          | some pk =>
            obtain ⟨path, key⟩ := pk
            simp only []
            split
            · rename_i r4 heq
              have l5 : (dropWs r2).length = r4.length + 1 := by rw [heq]; simp
              rw [ihIK g₂ d r4 _ (by omega) (by omega)]
            · rfl
      · rfl

theorem fuelGoal : ∀ f, FuelGoal f := by
  intro f
  induction f with
  | zero =>
    refine ⟨?_, ?_, ?_, ?_⟩
    · intro f₂ d s h; omega
    · intro f₂ d s h; omega
    · intro f₂ d s acc h; omega
    · intro f₂ d s acc h; omega
  | succ g ih =>
    exact ⟨value_fuel_step g ih, arrayValues_fuel_step g ih, arrayElems_fuel_step g ih, inlineKeyvals_fuel_step g ih⟩


/-! ## the statement loop -/

theorem lineTrailing_tail_len (s2 r : Bytes)
    (h : (match s2 with
      | [] => Res.ok () []
      | _ => match newline? s2 with
        | some r => Res.ok () r
        | none => Res.bt) = Res.ok () r) : r.length ≤ s2.length := by
  split at h
  · injection h with _ h; subst h; simp
  · split at h
    · rename_i r' hn
      injection h with _ h; subst h
      exact Nat.le_of_lt (newline_len _ _ hn)
    · cases h

theorem lineTrailing_mid_len (s1 : Bytes) :
    (match s1 with
      | 0x23 :: r => dropComment r
      | _ => s1).length ≤ s1.length := by
  split
  · rename_i t
    have := dropComment_len t
    simp only [List.length_cons]; omega
  · omega

theorem lineTrailing_len (s r : Bytes) (h : lineTrailing s = .ok () r) : r.length ≤ s.length := by
  unfold lineTrailing at h
  simp only [] at h
  exact Nat.le_trans (lineTrailing_tail_len _ _ h) (Nat.le_trans (lineTrailing_mid_len (dropWs s)) (dropWs_len s))

theorem keyvalLine_len (st st' : ParseState) (s r : Bytes) (h : keyvalLine st s = some (st', r)) :
    r.length < s.length := by
  unfold keyvalLine at h
  cases hk : keyPath s with
  | bt => rw [hk] at h; cases h
  | cut => rw [hk] at h; cases h
  | ok ks r0 =>
    rw [hk] at h
    simp only [] at h
    have l1 := keyPath_len _ _ _ hk
    split at h
    · cases h
    · split at h
      · rename_i r1
        simp only [List.length_cons] at l1
        have l2 := dropWs_len r1
        cases hv : value (3 * r1.length + 4) (ks.length - 1) (dropWs r1) with
        | bt => rw [hv] at h; cases h
        | cut => rw [hv] at h; cases h
        | ok v r2 =>
          rw [hv] at h
          simp only [] at h
          have l3 := value_len _ _ _ _ _ hv
          split at h
          · rename_i r3 hl
            have l4 := lineTrailing_len _ _ hl
            cases hsl : Value.splitLast ks with
            | none => rw [hsl] at h; cases h
            | some pk =>
              obtain ⟨path, key⟩ := pk
              rw [hsl] at h
              simp only [] at h
              cases ho : onKeyval st path key v with
              | none => rw [ho] at h; cases h
              | some st1 =>
                rw [ho] at h
                simp only [Option.map] at h
                injection h with h
                injection h with _ h
                subst h
                omega
          · cases h
      · cases h

theorem tableLine_len (st st' : ParseState) (s r : Bytes) (h : tableLine st s = some (st', r)) :
    r.length < s.length := by
  unfold tableLine at h
  split at h
  · rename_i t
    cases hk : keyPath t with
    | bt => rw [hk] at h; cases h
    | cut => rw [hk] at h; cases h
    | ok ks r1 =>
      rw [hk] at h
      simp only [] at h
      have l1 := keyPath_len _ _ _ hk
      split at h
      · rename_i r2
        simp only [List.length_cons] at l1
        split at h
        · rename_i r3 hl
          have l2 := lineTrailing_len _ _ hl
          cases ho : onArrayHeader st ks with
          | none => rw [ho] at h; cases h
          | some st1 =>
            rw [ho] at h
            simp only [Option.map] at h
            injection h with h
            injection h with _ h
            subst h
            simp only [List.length_cons]; omega
        · cases h
      · cases h
  · rename_i t _
    split at h
    · cases h
    · cases hk : keyPath t with
      | bt => rw [hk] at h; cases h
      | cut => rw [hk] at h; cases h
      | ok ks r1 =>
        rw [hk] at h
        simp only [] at h
        have l1 := keyPath_len _ _ _ hk
        split at h
        · rename_i r2
          simp only [List.length_cons] at l1
          split at h
          · rename_i r3 hl
            have l2 := lineTrailing_len _ _ hl
            cases ho : onStdHeader st ks with
            | none => rw [ho] at h; cases h
            | some st1 =>
              rw [ho] at h
              simp only [Option.map] at h
              injection h with h
              injection h with _ h
              subst h
              simp only [List.length_cons]; omega
          · cases h
        · cases h
  · cases h

theorem lines_fuel : ∀ (f₁ f₂ : Nat) (st : ParseState) (s : Bytes), s.length < f₁ → s.length < f₂ →
    lines f₁ st s = lines f₂ st s := by
  intro f₁
  induction f₁ with
  | zero => intro f₂ st s h; omega
  | succ g₁ ih =>
    intro f₂ st s h1 h2
    obtain ⟨g₂, rfl⟩ : ∃ g, f₂ = g + 1 := ⟨f₂ - 1, by omega⟩
    cases s with
    | nil => simp [lines]
    | cons b r =>
      simp only [List.length_cons] at h1 h2
      unfold lines
      simp only []
      split
      · have l1 := dropComment_len r
        split
        · rfl
        · cases hn : newline? (dropComment r) with
          | none => rfl
          | some r2 =>
            have l2 := newline_len _ _ hn
            have l3 := dropWs_len r2
            simp only []
            exact ih g₂ st _ (by omega) (by omega)
      · split
        · cases ht : tableLine st (b :: r) with
          | none => rfl
          | some p =>
            obtain ⟨st', r1⟩ := p
            have l1 := tableLine_len _ _ _ _ ht
            have l2 := dropWs_len r1
            simp only [List.length_cons] at l1
            simp only []
            exact ih g₂ st' _ (by omega) (by omega)
        · split
          · cases hn : newline? (b :: r) with
            | none => rfl
            | some r1 =>
              have l1 := newline_len _ _ hn
              have l2 := dropWs_len r1
              simp only [List.length_cons] at l1
              simp only []
              exact ih g₂ st _ (by omega) (by omega)
          · cases hk : keyvalLine st (b :: r) with
            | none => rfl
            | some p =>
              obtain ⟨st', r1⟩ := p
              have l1 := keyvalLine_len _ _ _ _ hk
              have l2 := dropWs_len r1
              simp only [List.length_cons] at l1
              simp only []
              exact ih g₂ st' _ (by omega) (by omega)

end TomlVerif.Lemmas.FuelValue04
