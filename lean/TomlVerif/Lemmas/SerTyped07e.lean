import TomlVerif.Lemmas.SerTyped07d
/-! C07, reading back, part 5: the induction over the type grammar (`core`). -/
namespace TomlVerif.Lemmas.SerTyped07
open TomlVerif TomlVerif.Model TomlVerif.Model.TomlValue TomlVerif.Model.DeRoutes TomlVerif.Model.DeTyped
open TomlVerif.Model.SerTyped TomlVerif.Model.Ser TomlVerif.Spec TomlVerif.Spec.Serde
open TomlVerif.Spec.OrderedPlain (KeysDistinct)
open TomlVerif.Lemmas.Order18 (alookup_perm keysDistinct_perm)
open TomlVerif.Lemmas.RoundTrip17 (KSorted ksorted_nodup ksorted_perm_eq sortedInsert_new)

theorem serValue_dt (d : Datetime.Datetime) (h : dtOk d = true) :
    serValue (.struct dtName [(dtField, .str (Datetime.Std.display d))]) = .ok (.sc (.dt d)) := by
  simp only [dtOk, beq_iff_eq] at h
  simp [serValue, serDatetime, h]

theorem ksorted_norm {α β : Type} (l : List (Bytes × α)) (p : Bytes × α → Bool) (f : α → β) (h : KSorted l) :
    KSorted ((l.filter p).map fun kd : Bytes × α => (kd.1, f kd.2)) := by
  unfold KSorted at h ⊢
  rw [List.pairwise_map]
  exact List.Pairwise.sublist List.filter_sublist h

/-- the variant-level statement, in terms of the two searches the deserializers run over the variants -/
def VariantGoal (fl : Flavour) (vs : Variants) (n : Bytes) (w : TV) (nd : Dec) : Prop :=
  (w = .str n ∧ unitOnlyVariant vs n = .ok nd) ∨ (∃ p, w = .tbl [(n, p)] ∧ GoodVariants fl vs n p nd)

theorem wellTypedVariants_name : ∀ (vs : Variants) (d : Dec), WellTypedVariants vs d = true → ∃ n, variantName d = some n
  | .nil, d, h => by simp [WellTypedVariants] at h
  | .cons _ _ _, d, h => by cases d <;> simp [WellTypedVariants, variantName] at h ⊢

mutual
theorem core (nm : Bytes) (hnm : (nm == dtName) = false) (cf : Nat → Nat) (fl : Flavour) :
    ∀ ty : Ty, WfTy ty = true → hasValue ty = false → Core nm cf fl ty
  | .bool, _, _ => by
    unfold Core; intro d v x w hwt hs hx hsim
    cases d <;> simp [WellTyped] at hwt
    simp only [serOf, Option.some.injEq] at hs; subst hs
    simp only [serValue, Except.ok.injEq] at hx; subst hx
    simp only [Sim] at hsim; subst hsim
    simp only [normDec]
    exact good_scalar fl .bool rfl _ _ rfl
  | .int lo hi, _, _ => by
    unfold Core; intro d v x w hwt hs hx hsim
    cases d <;> simp [WellTyped] at hwt
    rename_i n
    simp only [serOf, Option.some.injEq] at hs; subst hs
    simp only [serValue, widthOf_not128, Bool.false_eq_true, if_false] at hx
    split at hx
    · cases hx
    · rename_i hnot
      injection hx with hx; subst hx
      simp only [Sim] at hsim; subst hsim
      simp only [normDec]
      apply good_scalar fl _ rfl
      have hhi : n ≤ hi := by
        rcases hwt.2 with h | h
        · exact h
        · rw [widthOf_u64 lo hi h.1]
          simp only [h.1, beq_self_eq_true, Bool.true_and, decide_eq_true_eq] at hnot
          exact Int.not_lt.1 hnot
      simp [presValue, visitScalar, hwt.1, hhi]
  | .f64, _, _ => by
    unfold Core; intro d v x w hwt hs hx hsim
    cases d <;> simp [WellTyped] at hwt
    simp only [serOf, Option.some.injEq] at hs; subst hs
    simp only [serValue, Except.ok.injEq] at hx; subst hx
    simp only [Sim] at hsim; subst hsim
    simp only [normDec]
    exact good_scalar fl .f64 rfl _ _ rfl
  | .f32, _, _ => by
    unfold Core; intro d v x w hwt hs hx hsim
    cases d <;> simp [WellTyped] at hwt
    simp only [serOf, Option.some.injEq] at hs; subst hs
    simp only [serValue, Except.ok.injEq] at hx; subst hx
    simp only [Sim] at hsim; subst hsim
    simp only [normDec]
    exact good_scalar fl .f32 rfl _ _ rfl
  | .string, _, _ => by
    unfold Core; intro d v x w hwt hs hx hsim
    cases d <;> simp [WellTyped] at hwt
    simp only [serOf, Option.some.injEq] at hs; subst hs
    simp only [serValue, Except.ok.injEq] at hx; subst hx
    simp only [Sim] at hsim; subst hsim
    simp only [normDec]
    exact good_scalar fl .string rfl _ _ rfl
  | .char, _, _ => by
    unfold Core; intro d v x w hwt hs hx hsim
    cases d <;> simp [WellTyped] at hwt
    rename_i s
    unfold isChar at hwt
    split at hwt
    · rename_i cp hcp
      simp only [Bool.and_eq_true, beq_iff_eq] at hwt
      simp only [serOf, hcp, Option.map_some, Option.some.injEq] at hs; subst hs
      simp only [serValue, hwt.1.2, Except.ok.injEq] at hx; subst hx
      simp only [Sim] at hsim; subst hsim
      simp only [normDec]
      apply good_scalar fl .char rfl
      simp [presValue, visitScalar, hwt.2]
    · cases hwt
  | .unit, _, _ => by
    unfold Core; intro d v x w hwt hs hx hsim
    cases d <;> simp [WellTyped] at hwt
    simp only [serOf, Option.some.injEq] at hs; subst hs
    simp [serValue] at hx
  | .datetime, _, _ => by
    unfold Core; intro d v x w hwt hs hx hsim
    cases d <;> simp [WellTyped] at hwt
    rename_i dd
    simp only [serOf, Option.some.injEq] at hs; subst hs
    rw [serValue_dt dd hwt] at hx
    injection hx with hx; subst hx
    simp only [Sim] at hsim; subst hsim
    simp only [normDec]
    exact good_datetime fl dd hwt
  | .date, _, _ => by
    unfold Core; intro d v x w hwt hs hx hsim
    cases d <;> simp only [WellTyped, Bool.false_eq_true, Bool.and_eq_true] at hwt
    rename_i dd
    simp only [serOf, Option.some.injEq] at hs; subst hs
    rw [serValue_dt dd hwt.1.1.1] at hx
    injection hx with hx; subst hx
    simp only [Sim] at hsim; subst hsim
    simp only [normDec]
    exact good_date fl dd hwt.1.1.1 (by simp [hwt.1.1.2, hwt.1.2, hwt.2])
  | .time, _, _ => by
    unfold Core; intro d v x w hwt hs hx hsim
    cases d <;> simp only [WellTyped, Bool.false_eq_true, Bool.and_eq_true] at hwt
    rename_i dd
    simp only [serOf, Option.some.injEq] at hs; subst hs
    rw [serValue_dt dd hwt.1.1.1] at hx
    injection hx with hx; subst hx
    simp only [Sim] at hsim; subst hsim
    simp only [normDec]
    exact good_time fl dd hwt.1.1.1 (by simp [hwt.1.1.2, hwt.1.2, hwt.2])
  | .value, _, hv => by simp [hasValue] at hv
  | .ignored, _, _ => by
    unfold Core; intro d v x w hwt hs hx hsim
    cases d <;> simp [WellTyped] at hwt
  | .option t, hwf, hv => by
    unfold Core; intro d v x w hwt hs hx hsim
    have ih := core nm hnm cf fl t (by simpa [WfTy] using hwf) (by simpa [hasValue] using hv)
    cases d <;> simp [WellTyped] at hwt
    · simp only [serOf, Option.some.injEq] at hs; subst hs
      simp [serValue] at hx
    · rename_i d'
      simp only [serOf, Option.map_eq_some_iff] at hs
      obtain ⟨v', hv', rfl⟩ := hs
      simp only [serValue] at hx
      simp only [normDec]
      exact good_option fl t w _ (ih d' v' x w hwt hv' hx hsim)
  | .newtype t, hwf, hv => by
    unfold Core; intro d v x w hwt hs hx hsim
    have ih := core nm hnm cf fl t (by simpa [WfTy] using hwf) (by simpa [hasValue] using hv)
    cases d <;> simp [WellTyped] at hwt
    rename_i d'
    simp only [serOf, Option.map_eq_some_iff] at hs
    obtain ⟨v', hv', rfl⟩ := hs
    simp only [serValue] at hx
    simp only [normDec]
    exact good_newtype fl t w _ (ih d' v' x w hwt hv' hx hsim)
  | .seq t, hwf, hv => by
    unfold Core; intro d v x w hwt hs hx hsim
    have ih := core nm hnm cf fl t (by simpa [WfTy] using hwf) (by simpa [hasValue] using hv)
    cases d <;> simp only [WellTyped, Bool.false_eq_true] at hwt
    rename_i l
    simp only [serOf, Option.map_eq_some_iff] at hs
    obtain ⟨vs, hvs, rfl⟩ := hs
    simp only [serValue] at hx
    split at hx
    · rename_i xs hxs
      injection hx with hx; subst hx
      simp only [Sim] at hsim
      obtain ⟨ws, rfl, hws⟩ := hsim
      simp only [normDec]
      exact good_seq fl t ws _ (core_list nm cf fl t ih l vs xs ws hwt hvs hxs hws)
    · cases hx
  | .tuple ts, hwf, hv => by
    unfold Core; intro d v x w hwt hs hx hsim
    cases d <;> simp only [WellTyped, Bool.false_eq_true] at hwt
    rename_i l
    simp only [serOf, Option.map_eq_some_iff] at hs
    obtain ⟨vs, hvs, rfl⟩ := hs
    simp only [serValue] at hx
    split at hx
    · rename_i xs hxs
      injection hx with hx; subst hx
      simp only [Sim] at hsim
      obtain ⟨ws, rfl, hws⟩ := hsim
      simp only [normDec]
      exact good_tuple fl ts ws _
        (core_tys nm hnm cf fl ts (by simpa [WfTy] using hwf) (by simpa [hasValue] using hv) l vs xs ws hwt hvs hxs hws)
    · cases hx
  | .map t, hwf, hv => by
    unfold Core; intro d v x w hwt hs hx hsim
    have ih := core nm hnm cf fl t (by simpa [WfTy] using hwf) (by simpa [hasValue] using hv)
    cases d <;> simp only [WellTyped, Bool.false_eq_true, Bool.and_eq_true] at hwt
    rename_i l
    simp only [serOf, Option.map_eq_some_iff] at hs
    obtain ⟨kvs, hkvs, rfl⟩ := hs
    simp only [serValue] at hx
    split at hx
    · rename_i out hout
      injection hx with hx; subst hx
      simp only [Sim] at hsim
      obtain ⟨es, es0, rfl, hp, hkv⟩ := hsim
      have hks : KSorted l := ascending_ksorted l hwt.1
      obtain ⟨img, ho, hi⟩ := core_pairs nm cf fl t ih l kvs [] out hwt.2 (ksorted_nodup l hks) (by simp) hkvs hout
      simp only [List.nil_append] at ho
      subst ho
      obtain ⟨nds, hpn, hg⟩ := goodPairs_perm fl t hp _ (hi es0 hkv)
      have := good_map fl t es nds hg
      rw [collectSorted_of_sorted _ nds (ksorted_norm l _ (normDec cf t) hks) hpn] at this
      simp only [normDec]
      exact this
    · cases hx
  | .struct fs, hwf, hv => by
    unfold Core; intro d v x w hwt hs hx hsim
    simp only [WfTy, Bool.and_eq_true] at hwf
    cases d <;> simp only [WellTyped, Bool.false_eq_true] at hwt
    rename_i l
    simp only [serOf, Option.map_eq_some_iff] at hs
    obtain ⟨fields, hfields, rfl⟩ := hs
    simp only [serValue, hnm, Bool.false_eq_true, if_false] at hx
    split at hx
    · rename_i out hout
      injection hx with hx; subst hx
      simp only [Sim] at hsim
      obtain ⟨es, es0, rfl, hp, hkv⟩ := hsim
      have hdist := distinct_nodup _ hwf.1
      obtain ⟨_, hd, hg⟩ := struct_finish cf fl fs fields out es es0 (normFields cf fs l) hdist
        (serOfFields_keys nm fs l fields hfields) hout hp hkv
        (fun img es' himg h1 h2 => core_fields nm hnm cf fl fs hwf.2 (by simpa [hasValue] using hv) hdist
          l fields img es' hwt hfields himg h1 h2)
      simp only [normDec]
      exact good_struct fl fs es _ hd hg
    · cases hx
  | .enum vs, hwf, hv => by
    unfold Core; intro d v x w hwt hs hx hsim
    simp only [WfTy, Bool.and_eq_true] at hwf
    simp only [WellTyped] at hwt
    simp only [serOf] at hs
    simp only [normDec]
    obtain ⟨n, hn⟩ := wellTypedVariants_name vs d hwt
    rcases core_variants nm hnm cf fl vs hwf.2 (by simpa [hasValue] using hv) d n v x w hn hwt hs hx hsim with
      ⟨rfl, h⟩ | ⟨p, rfl, h⟩
    · exact good_enum_str fl vs n _ h
    · exact good_enum_tbl fl vs n p _ h
theorem core_tys (nm : Bytes) (hnm : (nm == dtName) = false) (cf : Nat → Nat) (fl : Flavour) :
    ∀ ts : Tys, WfTys ts = true → hasValueTys ts = false →
      ∀ (l : List Dec) (vs : List SVal) (xs : List V) (ws : List TV), WellTypedTys ts l = true →
        serOfTys nm ts l = some vs → serSeq vs = .ok xs → SimList cf xs ws → GoodTys fl ts ws (normTys cf ts l)
  | .nil, _, _, l, vs, xs, ws, hwt, hs, hx, hsim => by
    cases l with
    | cons _ _ => simp [WellTypedTys] at hwt
    | nil =>
      simp only [serOfTys, Option.some.injEq] at hs; subst hs
      rw [serSeq_nil xs hx] at hsim
      simp only [SimList] at hsim; subst hsim
      simp [GoodTys, normTys]
  | .cons t r, hwf, hv, l, vs, xs, ws, hwt, hs, hx, hsim => by
    simp only [WfTys, Bool.and_eq_true] at hwf
    simp only [hasValueTys, Bool.or_eq_false_iff] at hv
    cases l with
    | nil => simp [WellTypedTys] at hwt
    | cons d l =>
      simp only [WellTypedTys, Bool.and_eq_true] at hwt
      unfold serOfTys at hs
      split at hs
      · rename_i v vs' hv1 hvs'
        injection hs with hs; subst hs
        obtain ⟨x, xs', rfl, hx1, hx2⟩ := serSeq_cons _ _ _ hx
        simp only [SimList] at hsim
        obtain ⟨y, ws', rfl, hy, hws'⟩ := hsim
        simp only [normTys, GoodTys]
        exact ⟨core nm hnm cf fl t hwf.1 hv.1 d v x y hwt.1 hv1 hx1 hy,
          core_tys nm hnm cf fl r hwf.2 hv.2 l vs' xs' ws' hwt.2 hvs' hx2 hws'⟩
      · cases hs
theorem core_fields (nm : Bytes) (hnm : (nm == dtName) = false) (cf : Nat → Nat) (fl : Flavour) :
    ∀ fs : Fields, WfFields fs = true → hasValueFields fs = false → (Fields.names fs).Nodup →
      ∀ (l : List (Bytes × Dec)) (fields : List (Bytes × SVal)) (img : List (Bytes × V)) (es : List (Bytes × TV)),
        WellTypedFields fs l = true → serOfFields nm fs l = some fields → FieldsImg fields img →
        (∀ k x, (k, x) ∈ img → ∃ y, alookup k es = some y ∧ Sim cf x y) →
        (∀ k ∈ Fields.names fs, k ∉ img.map Prod.fst → alookup k es = none) →
        GoodFields fl fs es (normFields cf fs l)
  | .nil, _, _, _, l, fields, img, es, hwt, hs, himg, h1, h2 => by
    cases l with
    | cons _ _ => simp [WellTypedFields] at hwt
    | nil => simp [GoodFields, normFields]
  | .cons name t dflt r, hwf, hv, hnd, l, fields, img, es, hwt, hs, himg, h1, h2 => by
    simp only [WfFields, Bool.and_eq_true] at hwf
    simp only [hasValueFields, Bool.or_eq_false_iff] at hv
    simp only [Fields.names, List.nodup_cons] at hnd
    cases l with
    | nil => simp [WellTypedFields] at hwt
    | cons kd l =>
      obtain ⟨k, d⟩ := kd
      simp only [WellTypedFields, Bool.and_eq_true] at hwt
      unfold serOfFields at hs
      split at hs
      · rename_i v vs hv1 hvs
        injection hs with hs; subst hs
        obtain ⟨hnone, hopt⟩ := serOf_isNone nm t d v hv1
        have hkeys := serOfFields_keys nm r l vs hvs
        simp only [FieldsImg] at himg
        simp only [normFields, GoodFields]
        refine ⟨_, _, rfl, ?_, ?_⟩
        · split at himg
          · -- `None`: the field is skipped
            rename_i hn
            have hdn : isNoneDec d = true := by rw [← hnone]; exact hn
            obtain ⟨t', rfl⟩ := hopt hdn
            have hd := isNoneDec_eq d hdn
            subst hd
            have hnot : name ∉ img.map Prod.fst := fun hm => hnd.1 (hkeys ▸ fieldsImg_keys vs img himg name hm)
            rw [h2 name (by simp [Fields.names]) hnot]
            cases dflt with
            | true => simp [isNoneDec]
            | false => simp [isNoneDec, missingField, normDec]
          · rename_i hn
            have hdn : isNoneDec d = false := by rw [← hnone]; simpa using hn
            obtain ⟨x, img', rfl, hx, _⟩ := himg
            obtain ⟨y, hy, hsim⟩ := h1 name x (by simp)
            rw [hy]
            simp only [hdn, Bool.and_false, Bool.false_eq_true, if_false]
            exact core nm hnm cf fl t hwf.1 hv.1 d v x y hwt.1.2 hv1 hx hsim
        · split at himg
          · exact core_fields nm hnm cf fl r hwf.2 hv.2 hnd.2 l vs img es hwt.2 hvs himg h1
              (fun k' hk' hn' => h2 k' (by simp [Fields.names, hk']) hn')
          · obtain ⟨x, img', rfl, _, himg'⟩ := himg
            exact core_fields nm hnm cf fl r hwf.2 hv.2 hnd.2 l vs img' es hwt.2 hvs himg'
              (fun k' x' hm => h1 k' x' (by simp [hm]))
              (fun k' hk' hn' => h2 k' (by simp [Fields.names, hk']) (by
                simp only [List.map_cons, List.mem_cons, not_or]
                exact ⟨fun e => hnd.1 (e ▸ hk'), hn'⟩))
      · cases hs
theorem core_shape (nm : Bytes) (hnm : (nm == dtName) = false) (cf : Nat → Nat) (fl : Flavour) :
    ∀ s : Shape, WfShape s = true → hasValueShape s = false →
      ∀ (name : Bytes) (d : Dec) (v : SVal) (x : V) (w : TV), WellTypedShape s d = true → variantName d = some name →
        serOfShape nm s name d = some v → serValue v = .ok x → Sim cf x w →
        (w = .str name ∧ s = .unit ∧ normShape cf s d = .vUnit name) ∨
          (∃ p, w = .tbl [(name, p)] ∧ GoodShape fl s name p (normShape cf s d))
  | .unit, _, _, name, d, v, x, w, hwt, hname, hs, hx, hsim => by
    cases d <;> simp [WellTypedShape] at hwt
    simp only [variantName, Option.some.injEq] at hname; subst hname
    simp only [serOfShape, Option.some.injEq] at hs; subst hs
    simp only [serValue, Except.ok.injEq] at hx; subst hx
    simp only [Sim] at hsim; subst hsim
    exact .inl ⟨rfl, rfl, by simp [normShape]⟩
  | .newtype t, hwf, hv, name, d, v, x, w, hwt, hname, hs, hx, hsim => by
    cases d <;> simp only [WellTypedShape, Bool.false_eq_true] at hwt
    rename_i n d'
    simp only [variantName, Option.some.injEq] at hname; subst hname
    simp only [serOfShape, Option.map_eq_some_iff] at hs
    obtain ⟨v', hv', rfl⟩ := hs
    simp only [serValue] at hx
    split at hx
    · rename_i x' hx'
      injection hx with hx; subst hx
      simp only [Sim, SimKVs] at hsim
      obtain ⟨es, es0, rfl, hp, y, es', rfl, hy, rfl⟩ := hsim
      rw [List.perm_singleton.1 hp]
      refine .inr ⟨y, rfl, ?_⟩
      simp only [normShape, GoodShape]
      exact ⟨_, rfl, core nm hnm cf fl t (by simpa [WfShape] using hwf) (by simpa [hasValueShape] using hv)
        d' v' x' y hwt hv' hx' hy⟩
    · cases hx
  | .tuple ts, hwf, hv, name, d, v, x, w, hwt, hname, hs, hx, hsim => by
    cases d <;> simp only [WellTypedShape, Bool.false_eq_true] at hwt
    rename_i n l
    simp only [variantName, Option.some.injEq] at hname; subst hname
    simp only [serOfShape, Option.map_eq_some_iff] at hs
    obtain ⟨vs, hvs, rfl⟩ := hs
    simp only [serValue] at hx
    split at hx
    · rename_i xs hxs
      injection hx with hx; subst hx
      simp only [Sim, SimKVs] at hsim
      obtain ⟨es, es0, rfl, hp, y, es', rfl, ⟨ws, rfl, hws⟩, rfl⟩ := hsim
      rw [List.perm_singleton.1 hp]
      refine .inr ⟨_, rfl, ?_⟩
      simp only [normShape, GoodShape]
      exact ⟨ws, _, rfl, rfl, core_tys nm hnm cf fl ts (by simpa [WfShape] using hwf)
        (by simpa [hasValueShape] using hv) l vs xs ws hwt hvs hxs hws⟩
    · cases hx
  | .struct fs, hwf, hv, name, d, v, x, w, hwt, hname, hs, hx, hsim => by
    simp only [WfShape, Bool.and_eq_true] at hwf
    cases d <;> simp only [WellTypedShape, Bool.false_eq_true] at hwt
    rename_i n l
    simp only [variantName, Option.some.injEq] at hname; subst hname
    simp only [serOfShape, Option.map_eq_some_iff] at hs
    obtain ⟨fields, hfields, rfl⟩ := hs
    simp only [serValue] at hx
    split at hx
    · rename_i out hout
      injection hx with hx; subst hx
      simp only [Sim, SimKVs] at hsim
      obtain ⟨es, es0, rfl, hp, y, es', rfl, ⟨es1, es2, rfl, hp1, hkv⟩, rfl⟩ := hsim
      rw [List.perm_singleton.1 hp]
      refine .inr ⟨_, rfl, ?_⟩
      have hdist := distinct_nodup _ hwf.1
      obtain ⟨hk, hd, hg⟩ := struct_finish cf fl fs fields out es1 es2 (normFields cf fs l) hdist
        (serOfFields_keys nm fs l fields hfields) hout hp1 hkv
        (fun img es' himg h1 h2 => core_fields nm hnm cf fl fs hwf.2 (by simpa [hasValueShape] using hv) hdist
          l fields img es' hwt hfields himg h1 h2)
      simp only [normShape, GoodShape]
      exact ⟨es1, _, rfl, rfl, hk, hd, hg⟩
    · cases hx
theorem core_variants (nm : Bytes) (hnm : (nm == dtName) = false) (cf : Nat → Nat) (fl : Flavour) :
    ∀ vs : Variants, WfVariants vs = true → hasValueVariants vs = false →
      ∀ (d : Dec) (n : Bytes) (v : SVal) (x : V) (w : TV), variantName d = some n → WellTypedVariants vs d = true →
        serOfVariants nm vs d = some v → serValue v = .ok x → Sim cf x w →
        VariantGoal fl vs n w (normVariants cf vs d)
  | .nil, _, _, d, n, v, x, w, _, hwt, _, _, _ => by simp [WellTypedVariants] at hwt
  | .cons name s r, hwf, hv, d, n, v, x, w, hn, hwt, hs, hx, hsim => by
    simp only [WfVariants, Bool.and_eq_true] at hwf
    simp only [hasValueVariants, Bool.or_eq_false_iff] at hv
    have key : (if name == n then WellTypedShape s d else WellTypedVariants r d) = true →
        (if name == n then serOfShape nm s name d else serOfVariants nm r d) = some v →
        VariantGoal fl (.cons name s r) n w
          (if name == n then normShape cf s d else normVariants cf r d) := by
      intro hwt' hs'
      by_cases hnn : (name == n) = true
      · simp only [hnn, if_true] at hwt' hs' ⊢
        have hname : name = n := by simpa using hnn
        subst hname
        rcases core_shape nm hnm cf fl s hwf.1 hv.1 name d v x w hwt' hn hs' hx hsim with
          ⟨rfl, rfl, hnorm⟩ | ⟨p, rfl, hg⟩
        · refine .inl ⟨rfl, ?_⟩
          rw [hnorm]
          simp [unitOnlyVariant]
        · refine .inr ⟨p, rfl, ?_⟩
          simp only [GoodVariants, beq_self_eq_true, if_true]
          exact hg
      · simp only [hnn, Bool.false_eq_true, if_false] at hwt' hs' ⊢
        rcases core_variants nm hnm cf fl r hwf.2 hv.2 d n v x w hn hwt' hs' hx hsim with
          ⟨rfl, h⟩ | ⟨p, rfl, h⟩
        · refine .inl ⟨rfl, ?_⟩
          simp only [unitOnlyVariant, hnn, Bool.false_eq_true, if_false]
          exact h
        · refine .inr ⟨p, rfl, ?_⟩
          simp only [GoodVariants, hnn, Bool.false_eq_true, if_false]
          exact h
    cases d <;> simp only [variantName, Option.some.injEq] at hn <;> try (exact absurd hn (by simp))
    all_goals
      subst hn
      simp only [WellTypedVariants] at hwt
      simp only [serOfVariants] at hs
      simp only [normVariants]
      exact key hwt hs
end

end TomlVerif.Lemmas.SerTyped07
