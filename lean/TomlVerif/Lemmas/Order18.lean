import TomlVerif.Spec.OrderedPlain
/-! Helper lemmas for C18: `bytesLt` is a strict total order, `sortByKey` is a sort, strictly sorted
    permutations are equal, `sortPlain` is invariant under `PermEquiv`. -/
namespace TomlVerif.Lemmas.Order18
open TomlVerif TomlVerif.Model TomlVerif.Spec.OrderedPlain

/-! ### `bytesLt` -/

theorem bytesLt_irrefl (a : Bytes) : bytesLt a a = false := by
  induction a with
  | nil => rfl
  | cons x r ih => simp [bytesLt, UInt8.lt_irrefl, ih]

theorem bytesLt_trans : ∀ (a b c : Bytes), bytesLt a b = true → bytesLt b c = true → bytesLt a c = true
  | [], [], _, h, _ => by simp [bytesLt] at h
  | [], _ :: _, [], _, h => by simp [bytesLt] at h
  | [], _ :: _, _ :: _, _, _ => by simp [bytesLt]
  | _ :: _, [], _, h, _ => by simp [bytesLt] at h
  | _ :: _, _ :: _, [], _, h => by simp [bytesLt] at h
  | x :: r, y :: s, z :: t, h1, h2 => by
    have ih := bytesLt_trans r s t
    unfold bytesLt at h1 h2 ⊢
    simp only [UInt8.lt_iff_toNat_lt] at h1 h2 ⊢
    by_cases hxy : x.toNat < y.toNat
    · by_cases hyz : y.toNat < z.toNat
      · have : x.toNat < z.toNat := by omega
        simp [this]
      · by_cases hzy : z.toNat < y.toNat
        · simp [hyz, hzy] at h2
        · have : x.toNat < z.toNat := by omega
          simp [this]
    · by_cases hyx : y.toNat < x.toNat
      · simp [hxy, hyx] at h1
      · simp only [hxy, hyx, if_false] at h1
        have hxy' : x.toNat = y.toNat := by omega
        by_cases hyz : y.toNat < z.toNat
        · have : x.toNat < z.toNat := by omega
          simp [this]
        · by_cases hzy : z.toNat < y.toNat
          · simp [hyz, hzy] at h2
          · simp only [hyz, hzy, if_false] at h2
            have h3 : ¬ x.toNat < z.toNat := by omega
            have h4 : ¬ z.toNat < x.toNat := by omega
            simp only [h3, h4, if_false]
            exact ih h1 h2

/-- if neither is smaller the two byte strings are equal -/
theorem bytesLt_eq_of_not_lt : ∀ (a b : Bytes), bytesLt a b = false → bytesLt b a = false → a = b
  | [], [], _, _ => rfl
  | [], _ :: _, h, _ => by simp [bytesLt] at h
  | _ :: _, [], _, h => by simp [bytesLt] at h
  | x :: r, y :: s, h1, h2 => by
    have ih := bytesLt_eq_of_not_lt r s
    unfold bytesLt at h1 h2
    simp only [UInt8.lt_iff_toNat_lt] at h1 h2
    by_cases hxy : x.toNat < y.toNat
    · simp [hxy] at h1
    · by_cases hyx : y.toNat < x.toNat
      · simp [hyx] at h2
      · simp only [hxy, hyx, if_false] at h1 h2
        have : x = y := UInt8.toNat_inj.mp (by omega)
        rw [this, ih h1 h2]

theorem bytesLt_asymm (a b : Bytes) (h : bytesLt a b = true) : bytesLt b a = false := by
  cases hba : bytesLt b a with
  | false => rfl
  | true =>
    have := bytesLt_trans a b a h hba
    rw [bytesLt_irrefl] at this
    exact this.symm

theorem bytesLt_trichotomy (a b : Bytes) : bytesLt a b = true ∨ a = b ∨ bytesLt b a = true := by
  cases hab : bytesLt a b with
  | true => exact Or.inl rfl
  | false =>
    cases hba : bytesLt b a with
    | true => exact Or.inr (Or.inr rfl)
    | false => exact Or.inr (Or.inl (bytesLt_eq_of_not_lt a b hab hba))

theorem bytesLt_ne (a b : Bytes) (h : bytesLt a b = true) : a ≠ b := by
  intro e
  subst e
  rw [bytesLt_irrefl] at h
  exact Bool.noConfusion h

/-- `a < b ≤ c → a < c` -/
theorem bytesLt_of_lt_of_not_lt (a b c : Bytes) (h1 : bytesLt a b = true) (h2 : bytesLt c b = false) :
    bytesLt a c = true := by
  rcases bytesLt_trichotomy b c with h | h | h
  · exact bytesLt_trans a b c h1 h
  · subst h; exact h1
  · rw [h] at h2; exact Bool.noConfusion h2

/-- `a ≤ b ≤ c → a ≤ c` -/
theorem bytesLt_not_lt_trans (a b c : Bytes) (h1 : bytesLt b a = false) (h2 : bytesLt c b = false) :
    bytesLt c a = false := by
  cases h : bytesLt c a with
  | false => rfl
  | true =>
    have := bytesLt_of_lt_of_not_lt c a b h h1
    rw [this] at h2
    exact Bool.noConfusion h2

/-! ### `insertByKey`, `sortByKey` -/

theorem insertByKey_perm {α} (x : Bytes × α) (l : List (Bytes × α)) : (insertByKey x l).Perm (x :: l) := by
  induction l with
  | nil => exact List.Perm.refl _
  | cons y r ih =>
    unfold insertByKey
    split
    · exact ((List.perm_cons y).mpr ih).trans (List.Perm.swap x y r)
    · exact List.Perm.refl _

theorem sortByKey_perm {α} (l : List (Bytes × α)) : (sortByKey l).Perm l := by
  induction l with
  | nil => exact List.Perm.refl _
  | cons x r ih =>
    unfold sortByKey
    exact (insertByKey_perm x (sortByKey r)).trans ((List.perm_cons x).mpr ih)

theorem insertByKey_weakSorted {α} (x : Bytes × α) (l : List (Bytes × α)) (h : WeakSorted l) :
    WeakSorted (insertByKey x l) := by
  induction l with
  | nil => exact List.pairwise_singleton _ _
  | cons y r ih =>
    unfold WeakSorted at h ih ⊢
    rw [List.pairwise_cons] at h
    unfold insertByKey
    split
    · rename_i hyx
      rw [List.pairwise_cons]
      refine ⟨?_, ih h.2⟩
      intro a ha
      rcases List.mem_cons.mp ((insertByKey_perm x r).mem_iff.mp ha) with e | e
      · subst e; exact bytesLt_asymm _ _ hyx
      · exact h.1 a e
    · rename_i hyx
      have hyx : bytesLt y.1 x.1 = false := by simpa using hyx
      rw [List.pairwise_cons]
      refine ⟨?_, List.pairwise_cons.mpr h⟩
      intro a ha
      rcases List.mem_cons.mp ha with e | e
      · subst e; exact hyx
      · exact bytesLt_not_lt_trans x.1 y.1 a.1 hyx (h.1 a e)

theorem sortByKey_weakSorted {α} (l : List (Bytes × α)) : WeakSorted (sortByKey l) := by
  induction l with
  | nil => exact List.Pairwise.nil
  | cons x r ih => unfold sortByKey; exact insertByKey_weakSorted x _ ih

theorem keysDistinct_perm {α} {l₁ l₂ : List (Bytes × α)} (h : l₁.Perm l₂) (hd : KeysDistinct l₁) :
    KeysDistinct l₂ :=
  h.pairwise hd (fun hxy => Ne.symm hxy)

theorem strictSorted_of_weakSorted_of_distinct {α} {l : List (Bytes × α)} (hs : WeakSorted l)
    (hd : KeysDistinct l) : StrictSorted l := by
  unfold WeakSorted at hs; unfold KeysDistinct at hd; unfold StrictSorted
  refine (hs.and hd).imp ?_
  intro a b ⟨h1, h2⟩
  rcases bytesLt_trichotomy a.1 b.1 with h | h | h
  · exact h
  · exact absurd h h2
  · rw [h] at h1; exact Bool.noConfusion h1

theorem weakSorted_of_strictSorted {α} {l : List (Bytes × α)} (hs : StrictSorted l) : WeakSorted l :=
  List.Pairwise.imp (fun h => bytesLt_asymm _ _ h) hs

theorem keysDistinct_of_strictSorted {α} {l : List (Bytes × α)} (hs : StrictSorted l) : KeysDistinct l :=
  List.Pairwise.imp (fun h => bytesLt_ne _ _ h) hs

theorem sortByKey_strictSorted {α} (l : List (Bytes × α)) (hd : KeysDistinct l) : StrictSorted (sortByKey l) :=
  strictSorted_of_weakSorted_of_distinct (sortByKey_weakSorted l)
    (keysDistinct_perm (sortByKey_perm l).symm hd)

/-- a strictly sorted list is determined by its set of entries -/
theorem eq_of_perm_of_strictSorted {α} : ∀ {l₁ l₂ : List (Bytes × α)}, l₁.Perm l₂ → StrictSorted l₁ →
    StrictSorted l₂ → l₁ = l₂
  | [], l₂, hp, _, _ => (List.Perm.nil_eq hp)
  | a :: l₁, [], hp, _, _ => absurd (List.nil_perm.mp hp.symm) (List.cons_ne_nil _ _)
  | a :: l₁, b :: l₂, hp, h1, h2 => by
    unfold StrictSorted at h1 h2
    have h1' := List.pairwise_cons.mp h1
    have h2' := List.pairwise_cons.mp h2
    have hab : a = b := by
      have ha : a ∈ b :: l₂ := hp.mem_iff.mp (List.mem_cons_self ..)
      have hb : b ∈ a :: l₁ := hp.mem_iff.mpr (List.mem_cons_self ..)
      rcases List.mem_cons.mp ha with e | ha
      · exact e
      · rcases List.mem_cons.mp hb with e | hb
        · exact e.symm
        · have hlt1 := h1'.1 b hb
          have hlt2 := h2'.1 a ha
          rw [bytesLt_asymm _ _ hlt1] at hlt2
          exact Bool.noConfusion hlt2
    subst hab
    rw [eq_of_perm_of_strictSorted hp.cons_inv h1'.2 h2'.2]

theorem sortByKey_order_independent {α} {l₁ l₂ : List (Bytes × α)} (hp : l₁.Perm l₂) (hd : KeysDistinct l₁) :
    sortByKey l₁ = sortByKey l₂ :=
  eq_of_perm_of_strictSorted (((sortByKey_perm l₁).trans hp).trans (sortByKey_perm l₂).symm)
    (sortByKey_strictSorted l₁ hd) (sortByKey_strictSorted l₂ (keysDistinct_perm hp hd))

/-- an already sorted list is left alone (`BTreeMap` order is canonical) -/
theorem sortByKey_eq_self {α} (l : List (Bytes × α)) (hs : WeakSorted l) : sortByKey l = l := by
  induction l with
  | nil => rfl
  | cons x r ih =>
    unfold WeakSorted at hs ih
    have hs' := List.pairwise_cons.mp hs
    unfold sortByKey
    rw [ih hs'.2]
    cases r with
    | nil => rfl
    | cons y r' =>
      unfold insertByKey
      rw [hs'.1 y (List.mem_cons_self ..)]
      simp

theorem sortByKey_idem {α} (l : List (Bytes × α)) : sortByKey (sortByKey l) = sortByKey l :=
  sortByKey_eq_self _ (sortByKey_weakSorted l)

/-! ### lookups do not see the order -/

theorem alookup_perm {α} (k : Bytes) {l₁ l₂ : List (Bytes × α)} (hp : l₁.Perm l₂) (hd : KeysDistinct l₁) :
    alookup k l₁ = alookup k l₂ := by
  induction hp with
  | nil => rfl
  | cons x _ ih =>
    obtain ⟨k', v⟩ := x
    unfold alookup
    rw [ih (List.pairwise_cons.mp hd).2]
  | swap x y l =>
    obtain ⟨kx, vx⟩ := x
    obtain ⟨ky, vy⟩ := y
    have hne : ky ≠ kx := (List.pairwise_cons.mp hd).1 _ (List.mem_cons_self ..)
    simp only [alookup]
    by_cases h1 : ky = k
    · by_cases h2 : kx = k
      · exact absurd (h1.trans h2.symm) hne
      · simp [h1, h2]
    · simp [h1]
  | trans h1 _ ih1 ih2 => exact (ih1 hd).trans (ih2 (keysDistinct_perm h1 hd))

/-! ### `sortPlain` -/

theorem sortPlainList_eq_map (xs : List Plain) : sortPlainList xs = xs.map sortPlain := by
  induction xs with
  | nil => simp [sortPlainList]
  | cons x r ih => simp [sortPlainList, ih]

theorem sortPlainEntries_eq_map (es : List (Bytes × Plain)) :
    sortPlainEntries es = es.map fun e => (e.1, sortPlain e.2) := by
  induction es with
  | nil => simp [sortPlainEntries]
  | cons x r ih => obtain ⟨k, v⟩ := x; simp [sortPlainEntries, ih]

theorem sortPlainEntries_keysDistinct {es : List (Bytes × Plain)} (h : KeysDistinct es) :
    KeysDistinct (sortPlainEntries es) := by
  rw [sortPlainEntries_eq_map]
  unfold KeysDistinct at h ⊢
  rw [List.pairwise_map]
  exact h

theorem sortPlainEntries_keys (es : List (Bytes × Plain)) :
    (sortPlainEntries es).map Prod.fst = es.map Prod.fst := by
  rw [sortPlainEntries_eq_map, List.map_map]
  rfl

theorem sortPlainEntries_perm {es fs : List (Bytes × Plain)} (h : es.Perm fs) :
    (sortPlainEntries es).Perm (sortPlainEntries fs) := by
  rw [sortPlainEntries_eq_map, sortPlainEntries_eq_map]
  exact h.map _

/-- `sortPlain` does not see the order of table entries (mutual induction on the derivation, through the recursor) -/
theorem sortPlain_permEquiv {p q : Plain} (h : PermEquiv p q) : sortPlain p = sortPlain q :=
  @PermEquiv.rec
    (motive_1 := fun p q _ => sortPlain p = sortPlain q)
    (motive_2 := fun xs ys _ => sortPlainList xs = sortPlainList ys)
    (motive_3 := fun es fs _ => sortPlainEntries es = sortPlainEntries fs)
    (fun _ => rfl)
    (fun _ ih => by simp only [sortPlain]; rw [ih])
    (fun {es fs gs} _ hd hp ih => by
      simp only [sortPlain]
      rw [ih]
      have hd' : KeysDistinct (sortPlainEntries fs) := ih ▸ sortPlainEntries_keysDistinct hd
      rw [sortByKey_order_independent (sortPlainEntries_perm hp) hd'])
    rfl
    (fun _ _ ih1 ih2 => by simp only [sortPlainList]; rw [ih1, ih2])
    rfl
    (fun _ _ ih1 ih2 => by simp only [sortPlainEntries]; rw [ih1, ih2])
    p q h

mutual
/-- the sorted form holds the same data as the original -/
theorem permEquiv_sortPlain : ∀ (p : Plain), WellKeyed p → PermEquiv p (sortPlain p)
  | .scalar l, _ => by simp only [sortPlain]; exact PermEquiv.scalar l
  | .arr xs, h => by
    simp only [sortPlain]
    simp only [WellKeyed] at h
    exact PermEquiv.arr (permEquivList_sortPlainList xs h)
  | .tbl es, h => by
    simp only [sortPlain]
    simp only [WellKeyed] at h
    exact PermEquiv.tbl (permEquivEntries_sortPlainEntries es h.2) h.1 (sortByKey_perm _).symm
theorem permEquivList_sortPlainList : ∀ (xs : List Plain), WellKeyedList xs → PermEquivList xs (sortPlainList xs)
  | [], _ => by simp only [sortPlainList]; exact PermEquivList.nil
  | x :: r, h => by
    simp only [sortPlainList]
    simp only [WellKeyedList] at h
    exact PermEquivList.cons (permEquiv_sortPlain x h.1) (permEquivList_sortPlainList r h.2)
theorem permEquivEntries_sortPlainEntries : ∀ (es : List (Bytes × Plain)), WellKeyedEntries es →
    PermEquivEntries es (sortPlainEntries es)
  | [], _ => by simp only [sortPlainEntries]; exact PermEquivEntries.nil
  | (k, v) :: r, h => by
    simp only [sortPlainEntries]
    simp only [WellKeyedEntries] at h
    exact PermEquivEntries.cons (permEquiv_sortPlain v h.1) (permEquivEntries_sortPlainEntries r h.2)
end

/-- sorting looks at keys only: it commutes with any map over the values -/
theorem insertByKey_mapVal {α β} (f : α → β) (x : Bytes × α) (l : List (Bytes × α)) :
    insertByKey (x.1, f x.2) (l.map fun e => (e.1, f e.2)) = (insertByKey x l).map fun e => (e.1, f e.2) := by
  induction l with
  | nil => rfl
  | cons y r ih =>
    simp only [List.map_cons, insertByKey]
    split
    · rw [List.map_cons, ih]
    · rfl

theorem sortByKey_mapVal {α β} (f : α → β) (l : List (Bytes × α)) :
    sortByKey (l.map fun e => (e.1, f e.2)) = (sortByKey l).map fun e => (e.1, f e.2) := by
  induction l with
  | nil => rfl
  | cons x r ih =>
    simp only [List.map_cons, sortByKey]
    rw [ih, insertByKey_mapVal]

theorem sortPlainEntries_sortByKey (es : List (Bytes × Plain)) :
    sortPlainEntries (sortByKey es) = sortByKey (sortPlainEntries es) := by
  rw [sortPlainEntries_eq_map, sortPlainEntries_eq_map, sortByKey_mapVal]

mutual
theorem sortPlain_idem : ∀ (p : Plain), sortPlain (sortPlain p) = sortPlain p
  | .scalar l => by simp only [sortPlain]
  | .arr xs => by simp only [sortPlain]; rw [sortPlainList_idem xs]
  | .tbl es => by
    simp only [sortPlain]
    rw [sortPlainEntries_sortByKey, sortPlainEntries_idem es, sortByKey_idem]
theorem sortPlainList_idem : ∀ (xs : List Plain), sortPlainList (sortPlainList xs) = sortPlainList xs
  | [] => by simp only [sortPlainList]
  | x :: r => by simp only [sortPlainList]; rw [sortPlain_idem x, sortPlainList_idem r]
theorem sortPlainEntries_idem : ∀ (es : List (Bytes × Plain)),
    sortPlainEntries (sortPlainEntries es) = sortPlainEntries es
  | [] => by simp only [sortPlainEntries]
  | (k, v) :: r => by simp only [sortPlainEntries]; rw [sortPlain_idem v, sortPlainEntries_idem r]
end

end TomlVerif.Lemmas.Order18
