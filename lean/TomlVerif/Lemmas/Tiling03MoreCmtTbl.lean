import TomlVerif.Lemmas.Tiling03MoreCmtVal
import TomlVerif.Lemmas.Refine08cTop
/-! C03, "every comment is kept" — the printer side for tables: every decor piece of a table tree
    (`tblPieces`) is written by the document printer, provided (`TDc`) an invisible table has no
    decor to lose (implicit and dotted tables carry the default decor), values stored directly in
    tables are not dotted inline tables, elements of arrays of tables are not dotted, and the
    dotted inline tables inside values are bare (`VD`). -/
namespace TomlVerif.Lemmas.Tiling03More
open TomlVerif TomlVerif.Spec TomlVerif.Model TomlVerif.Model.Strings TomlVerif.Model.Value
open TomlVerif.Model.Cst TomlVerif.Model.Encode TomlVerif.Lemmas.Cst03
open TomlVerif.Lemmas.Tiling03 TomlVerif.Lemmas.Tiling03Hdr TomlVerif.Lemmas.Tiling03Nest
open TomlVerif.Lemmas.Refine08c

mutual
/-- the tree invariant the printer needs to keep every decor piece -/
def TDc : CTbl → Prop
  | .mk items imp dot _ dec _ => ((imp = true ∨ dot = true) → dec = {}) ∧ IDc items
def IDc : List (CKey × CItem) → Prop
  | [] => True
  | (_, it) :: r => (match it with
      | .value v => notDottedInl v = true ∧ VD v
      | .table t => TDc t
      | .aot ts _ => TsDc ts) ∧ IDc r
def TsDc : List CTbl → Prop
  | [] => True
  | t :: r => (t.dotted = false ∧ TDc t) ∧ TsDc r
end

theorem encodeBody_append (f : Bytes → Bytes) (inp : Bytes) : ∀ (a b : List (List CKey × CVal)),
    encodeBody f inp (a ++ b) = encodeBody f inp a ++ encodeBody f inp b
  | [], b => by simp [encodeBody]
  | (kp, v) :: r, b => by
    simp only [List.cons_append, encodeBody, encodeBody_append f inp r b, List.append_assoc]

/-- the piece `p` is written when the entry `e` is printed, whatever `first_table` is -/
def Good (f : Bytes → Bytes) (inp : Bytes) (p : Bytes) (e : Entry) : Prop :=
  ∀ ft, f p <:+: (visitTable f inp e ft).1

theorem good_body (f : Bytes → Bytes) (inp : Bytes) (p : Bytes) (e : Entry)
    (h : f p <:+: encodeBody f inp (valuesTbl e.tbl.items [])) : Good f inp p e :=
  fun ft => infix_trans' h (visitTable_body f inp e ft)

/-- the header of a table that is not the root writes the table's decor, unless the table is
    invisible — and then it has none -/
theorem good_decor (f : Bytes → Bytes) (inp : Bytes) (p : Bytes) (q : Nat) (T : CTbl) (path : List CKey) (isArr : Bool)
    (hpath : path ≠ []) (himp : T.implicit = true → T.decor = {})
    (hp : p ∈ decorPieces inp T.decor) : Good f inp p ⟨q, T, path, isArr⟩ := by
  intro ft
  have hpe : path.isEmpty = false := by cases path with
    | nil => exact absurd rfl hpath
    | cons _ _ => rfl
  simp only [visitTable, hpe, Bool.false_eq_true, if_false]
  refine infix_appL _ ?_
  cases isArr with
  | true =>
    simp only [if_true]
    rcases decorPieces_cases f inp T.decor p hp with h | h
    · rw [← h (if ft = true then [] else [0x0A])]
      exact infix_appL _ (infix_appL _ (infix_appL _ (infix_appL _ (infix_appL _ (infix_rfl' _)))))
    · rw [← h []]
      exact infix_appL _ (infix_appR _ (infix_rfl' _))
  | false =>
    simp only [Bool.false_eq_true, if_false]
    cases hv : (!(T.implicit && (valuesTbl T.items []).isEmpty)) with
    | false =>
      have hi : T.implicit = true := by
        cases hh : T.implicit with
        | true => rfl
        | false => rw [hh] at hv; simp at hv
      rw [himp hi] at hp
      cases hp
    | true =>
      simp only [if_true]
      rcases decorPieces_cases f inp T.decor p hp with h | h
      · rw [← h (if ft = true then [] else [0x0A])]
        exact infix_appL _ (infix_appL _ (infix_appL _ (infix_appL _ (infix_appL _ (infix_rfl' _)))))
      · rw [← h []]
        exact infix_appL _ (infix_appR _ (infix_rfl' _))

/-- where a piece below a list of items goes: into the body of the enclosing section (entries
    reached through dotted tables), or into the section of a table collected below -/
def ItemsStmt (f : Bytes → Bytes) (inp : Bytes) (p : Bytes) (items : List (CKey × CItem)) : Prop :=
  (∀ parent, f p <:+: encodeBody f inp (valuesTbl items parent)) ∨
  (∀ path st, ∃ e, e ∈ (visitItems items path st).2 ∧ Good f inp p e)

def TblStmt (f : Bytes → Bytes) (inp : Bytes) (p : Bytes) (t : CTbl) : Prop :=
  (t.dotted = true ∧ ∀ path, f p <:+: encodeBody f inp (valuesDotted t path)) ∨
  (∀ path, path ≠ [] → ∀ isArr st, ∃ e, e ∈ (visitTbl t path isArr st).2 ∧ Good f inp p e)

def AotStmt (f : Bytes → Bytes) (inp : Bytes) (p : Bytes) (ts : List CTbl) : Prop :=
  ∀ path, path ≠ [] → ∀ st, ∃ e, e ∈ (visitAot ts path st).2 ∧ Good f inp p e

theorem snoc_ne_nil {α} (l : List α) (a : α) : l ++ [a] ≠ [] := by
  cases l <;> simp

theorem mem_visitTbl_of_mem {e : Entry} {st : Nat × List Entry} (t : CTbl) (path : List CKey) (a : Bool)
    (h : e ∈ st.2) : e ∈ (visitTbl t path a st).2 := by
  obtain ⟨l, hl⟩ := visitTbl_mono t path a st
  rw [hl]; exact List.mem_append_left _ h

theorem valuesTbl_cons' (k : CKey) (it : CItem) (r : List (CKey × CItem)) (parent : List CKey) :
    valuesTbl ((k, it) :: r) parent = valuesTbl [(k, it)] parent ++ valuesTbl r parent := by
  cases it with
  | value v => cases v <;> simp [valuesTbl]
  | table t => simp [valuesTbl]
  | aot ts sp => simp [valuesTbl]

theorem valuesTbl_single_table (k : CKey) (t : CTbl) (parent : List CKey) :
    valuesTbl [(k, .table t)] parent = valuesDotted t (parent ++ [k]) := by
  simp [valuesTbl]

mutual
theorem tbl_pieces (f : Bytes → Bytes) (hf0 : f [] = []) (inp : Bytes) : ∀ (t : CTbl), TDc t →
    ∀ p, p ∈ tblPieces inp t → TblStmt f inp p t
  | .mk items imp dot q dec sp, ht, p, hp => by
    rw [tblPieces] at hp
    rw [TDc] at ht
    obtain ⟨hdec, hit⟩ := ht
    cases dot with
    | true =>
      rw [hdec (Or.inr rfl)] at hp
      simp only [decorPieces_default, List.nil_append] at hp
      rcases items_pieces f hf0 inp items hit p hp with h | h
      · left
        refine ⟨rfl, fun path => ?_⟩
        rw [valuesDotted]; simp only [if_true]
        exact h path
      · right
        intro path _ isArr st
        rw [visitTbl]; simp only [if_true]
        exact h path st
    | false =>
      right
      intro path hpath isArr st
      rw [visitTbl]; simp only [Bool.false_eq_true, if_false]
      rcases List.mem_append.1 hp with hp | hp
      · refine ⟨⟨q.getD st.1, .mk items imp false q dec sp, path, isArr⟩,
          mem_visitItems_of_mem items path (by simp), ?_⟩
        refine good_decor f inp p _ _ path isArr hpath ?_ hp
        intro hi
        exact hdec (Or.inl hi)
      · rcases items_pieces f hf0 inp items hit p hp with h | h
        · exact ⟨⟨q.getD st.1, .mk items imp false q dec sp, path, isArr⟩,
            mem_visitItems_of_mem items path (by simp), good_body f inp p _ (h [])⟩
        · exact h path _
theorem items_pieces (f : Bytes → Bytes) (hf0 : f [] = []) (inp : Bytes) : ∀ (items : List (CKey × CItem)), IDc items →
    ∀ p, p ∈ itemsPieces inp items → ItemsStmt f inp p items
  | [], _, p, hp => by rw [itemsPieces] at hp; cases hp
  | (k, .value v) :: r, hit, p, hp => by
    rw [itemsPieces] at hp
    rw [IDc] at hit
    obtain ⟨⟨hnd, hvd⟩, hr⟩ := hit
    rcases List.mem_append.1 hp with hp | hp
    · left
      intro parent
      have hm : (parent ++ [k], v) ∈ valuesTbl ((k, .value v) :: r) parent :=
        valuesTbl_mem _ parent k v (by simp) hnd
      have h1 := encodeBody_mem f inp _ _ _ hm
      have h2 := entry_printed f inp k v parent [] [] [0x20] [0x20] []
        (valPieces_printed f hf0 inp v hvd _ _) p hp
      rw [List.nil_append] at h2
      exact infix_trans' (infix_appL _ h2) h1
    · rcases items_pieces f hf0 inp r hr p hp with h | h
      · left
        intro parent
        rw [valuesTbl_cons', encodeBody_append]
        exact infix_appR _ (h parent)
      · right
        intro path st
        rw [visitItems]
        exact h path st
  | (k, .table t) :: r, hit, p, hp => by
    rw [itemsPieces] at hp
    rw [IDc] at hit
    obtain ⟨ht, hr⟩ := hit
    rcases List.mem_append.1 hp with hp | hp
    · rcases tbl_pieces f hf0 inp t ht p hp with h | h
      · left
        intro parent
        rw [valuesTbl_cons', encodeBody_append, valuesTbl_single_table]
        exact infix_appL _ (h.2 (parent ++ [k]))
      · right
        intro path st
        rw [visitItems]
        obtain ⟨e, he, hg⟩ := h (path ++ [k]) (snoc_ne_nil _ _) false st
        exact ⟨e, mem_visitItems_of_mem r path he, hg⟩
    · rcases items_pieces f hf0 inp r hr p hp with h | h
      · left
        intro parent
        rw [valuesTbl_cons', encodeBody_append]
        exact infix_appR _ (h parent)
      · right
        intro path st
        rw [visitItems]
        exact h path _
  | (k, .aot ts asp) :: r, hit, p, hp => by
    rw [itemsPieces] at hp
    rw [IDc] at hit
    obtain ⟨ht, hr⟩ := hit
    rcases List.mem_append.1 hp with hp | hp
    · right
      intro path st
      rw [visitItems]
      obtain ⟨e, he, hg⟩ := tbls_pieces f hf0 inp ts ht p hp (path ++ [k]) (snoc_ne_nil _ _) st
      exact ⟨e, mem_visitItems_of_mem r path he, hg⟩
    · rcases items_pieces f hf0 inp r hr p hp with h | h
      · left
        intro parent
        rw [valuesTbl_cons', encodeBody_append]
        exact infix_appR _ (h parent)
      · right
        intro path st
        rw [visitItems]
        exact h path _
theorem tbls_pieces (f : Bytes → Bytes) (hf0 : f [] = []) (inp : Bytes) : ∀ (ts : List CTbl), TsDc ts →
    ∀ p, p ∈ tblsPieces inp ts → AotStmt f inp p ts
  | [], _, p, hp => by rw [tblsPieces] at hp; cases hp
  | t :: r, hts, p, hp => by
    rw [tblsPieces] at hp
    rw [TsDc] at hts
    obtain ⟨⟨hnd, ht⟩, hr⟩ := hts
    intro path hpath st
    rw [visitAot]
    rcases List.mem_append.1 hp with hp | hp
    · rcases tbl_pieces f hf0 inp t ht p hp with h | h
      · rw [hnd] at h; exact absurd h.1 (by simp)
      · obtain ⟨e, he, hg⟩ := h path hpath true st
        exact ⟨e, mem_visitAot_of_mem r path he, hg⟩
    · exact tbls_pieces f hf0 inp r hr p hp path hpath _
end

theorem visitTables_good (f : Bytes → Bytes) (inp : Bytes) (p : Bytes) : ∀ (l : List Entry) (e : Entry) (ft : Bool),
    e ∈ l → Good f inp p e → f p <:+: visitTables f inp l ft
  | [], _, _, h, _ => by cases h
  | x :: r, e, ft, h, hg => by
    simp only [visitTables]
    rcases List.mem_cons.1 h with h | h
    · subst h
      exact infix_appL _ (hg ft)
    · exact infix_appR _ (visitTables_good f inp p r e _ h hg)

/-- **every decor piece of the table tree is written by the document printer** -/
theorem tblPieces_printed (f : Bytes → Bytes) (hf0 : f [] = []) (inp : Bytes) (d : CDoc) (hroot : TDc d.root)
    (hnd : d.root.dotted = false) (p : Bytes) (hp : p ∈ tblPieces inp d.root) : f p <:+: printDocG f inp d := by
  obtain ⟨root, tr⟩ := d
  obtain ⟨items, imp, dot, q, dec, sp⟩ := root
  simp only [CTbl.dotted] at hnd
  subst hnd
  simp only [] at hp hroot
  rw [tblPieces] at hp
  rw [TDc] at hroot
  simp only [printDocG, CTbl.decor]
  rcases List.mem_append.1 hp with hp | hp
  · rcases decorPieces_cases f inp dec p hp with h | h
    · rw [← h []]
      exact infix_appL _ (infix_appL _ (infix_appL _ (infix_rfl' _)))
    · rw [← h []]
      exact infix_appL _ (infix_appR _ (infix_rfl' _))
  · refine infix_appL _ (infix_appL _ (infix_appR _ ?_))
    have key : ∃ e, e ∈ (visitTbl (.mk items imp false q dec sp) [] false (0, [])).2 ∧ Good f inp p e := by
      rw [visitTbl]; simp only [Bool.false_eq_true, if_false]
      rcases items_pieces f hf0 inp items hroot.2 p hp with h | h
      · exact ⟨⟨q.getD 0, .mk items imp false q dec sp, [], false⟩,
          mem_visitItems_of_mem items [] (by simp), good_body f inp p _ (h [])⟩
      · exact h [] _
    obtain ⟨e, he, hg⟩ := key
    exact visitTables_good f inp p _ e true ((mem_sortEntries e _).2 he) hg

end TomlVerif.Lemmas.Tiling03More
