import TomlVerif.Lemmas.Tiling03MoreVSKeys
/-! Value-level "same data" (C03): the fuel induction over `cvalue / carrayValues / carrayElems /
    cinlineKeyvals` establishing that every parsed value is RENDERABLE — its printed text is the
    rendering of a well-formed grammar tree denoting the erased value. -/
namespace TomlVerif.Lemmas.Tiling03More.VS
open TomlVerif TomlVerif.Spec TomlVerif.Model TomlVerif.Model.Strings TomlVerif.Model.Value
open TomlVerif.Model.Cst TomlVerif.Model.Encode TomlVerif.Lemmas.Suffix03 TomlVerif.Lemmas.Cst03
open TomlVerif.Lemmas.Tiling03 TomlVerif.Spec.AstValue TomlVerif.Spec.AstValueQ TomlVerif.Lemmas.Spans14
open TomlVerif.Lemmas.Refine08c TomlVerif.Lemmas.Refine08bSem

/-! ### trivia without carriage returns -/

def Piece.noCr : Piece → Piece
  | .ws bs => .ws bs
  | .nl _ => .nl false
  | .comment body _ => .comment body false

theorem nonEol_noCr (t : Bytes) (h : ∀ b ∈ t, isNonEol b = true) : ∀ b ∈ t, b ≠ 0x0D := by
  intro b hb e
  have := h b hb
  subst e
  revert this; decide

theorem piece_strip (p : Piece) (hp : p.WF) : (Piece.noCr p).WF ∧ (Piece.noCr p).render = stripCr p.render := by
  cases p with
  | ws bs => exact ⟨hp, (allWs_strip bs hp).symm⟩
  | nl c => exact ⟨trivial, by cases c <;> rfl⟩
  | comment body c =>
    refine ⟨hp, ?_⟩
    have hb : stripCr body = body := stripCr_of_noCr body (nonEol_noCr body hp)
    have e : stripCr (0x23 :: (body ++ nlBytes c)) = 0x23 :: (stripCr body ++ stripCr (nlBytes c)) := by
      rw [← stripCr_append]; rfl
    simp only [Piece.noCr, Piece.render]
    rw [e, hb]
    cases c <;> rfl

/-- `stripCr` of well-formed trivia is well-formed trivia -/
theorem wcn_strip : ∀ (w : Wcn), WcnWF w → ∃ w' : Wcn, WcnWF w' ∧ renderWcn w' = stripCr (renderWcn w)
  | [], _ => ⟨[], Sound01.wcnWF_nil, rfl⟩
  | p :: w, h => by
    obtain ⟨w', h1, h2⟩ := wcn_strip w (fun q hq => h q (List.mem_cons_of_mem _ hq))
    obtain ⟨p1, p2⟩ := piece_strip p (h p (by simp))
    exact ⟨Piece.noCr p :: w', Sound01.wcnWF_cons _ _ p1 h1, by simp only [renderWcn, stripCr_append, p2, h2]⟩

/-- the trivia `ws_comment_newline` consumed, as the printer writes the recorded span -/
theorem wcn_text (inp s r : Bytes) (fuel : Nat) (hs : s <:+ inp) (h : wsCommentNewline fuel s = some r) :
    ∃ w' : Wcn, WcnWF w' ∧ renderWcn w' = encRaw stripCr inp (rawBetween inp.length s r) := by
  obtain ⟨w, hw, e, _⟩ := Sound01.wcn_sound fuel s r h
  obtain ⟨w', h1, h2⟩ := wcn_strip w hw
  refine ⟨w', h1, ?_⟩
  simp only [encRaw]
  rw [rawText_between inp s (renderWcn w) r hs e, h2]

/-! ### leaves -/

theorem LeafG_setDecor (v : CVal) (d : Decor) : LeafG (v.setDecor d) ↔ LeafG v := by
  unfold LeafG
  rw [eraseVal_setDecor]
  cases v <;> simp [CVal.setDecor, undotted, impInl]

theorem SLeaf_notInl (v : Val) (h : notInlVal v = true) : SLeaf v := by
  intro sub imp dot e
  subst e
  simp [notInlVal] at h

/-! ### the induction -/

def R1 (inp : Bytes) (fuel : Nat) : Prop :=
  ∀ d s v r, s <:+ inp → cvalue inp.length fuel d s = .ok v r → RV inp d v ∧ LeafG v

def R2 (inp : Bytes) (fuel : Nat) : Prop :=
  ∀ d s vs comma tr r, s <:+ inp → carrayValues inp.length fuel d s = .ok (vs, comma, tr) r →
    ∃ (qitems : List (Wcn × QVal × Wcn)) (tail : Wcn), WFItemsQ qitems ∧ WcnWF tail ∧
      renderItemsQ qitems = encodeElems stripCr inp vs true ∧ renderWcn tail = encRaw stripCr inp tr ∧
      semItemsQ qitems = eraseVals vs ∧ (depthItemsQ qitems = 0 ∨ d + depthItemsQ qitems < LIMIT)

def R3 (inp : Bytes) (fuel : Nat) : Prop :=
  ∀ d s acc vs r, s <:+ inp → carrayElems inp.length fuel d s acc = .ok vs r →
    ∃ (new : List CVal) (qitems : List (Wcn × QVal × Wcn)), vs = acc ++ new ∧
      (∀ v ∈ new, ∃ a b, v.decor = Decor.new a b) ∧ WFItemsQ qitems ∧
      renderItemsQ qitems = encodeElems stripCr inp new true ∧
      semItemsQ qitems = eraseVals new ∧ (depthItemsQ qitems = 0 ∨ d + depthItemsQ qitems < LIMIT)

/-- what is known of a parsed `(path, key, value)` entry of an inline table parsed at depth `d` -/
def TripleOK (inp : Bytes) (d : Nat) (t : Triple) : Prop :=
  (∀ k ∈ t.1, GKey inp k) ∧ GKey inp t.2.1 ∧ GVal inp d t.1.length t.2.2 ∧ VOK cleanPr t.2.2

def R4 (inp : Bytes) (fuel : Nat) : Prop :=
  ∀ d s acc kvs r, s <:+ inp → cinlineKeyvals inp.length fuel d s acc = .ok kvs r →
    ∃ new : List Triple, kvs = acc ++ new ∧ (new = [] ∨ dropWs r = r) ∧ ∀ t ∈ new, TripleOK inp d t

theorem rstep4 (inp : Bytes) (fuel : Nat) (ih1 : R1 inp fuel) (ih4 : R4 inp fuel) : R4 inp (fuel + 1) := by
  intro d s acc kvs r hinp h
  have hP1 := (value_main inp fuel).1
  have hP4 := (value_main inp fuel).2.2.2
  unfold cinlineKeyvals at h
  split at h
  · cases h
  · injection h with h1 h2; subst h1
    exact ⟨[], by simp, Or.inl rfl, fun t ht => by cases ht⟩
  · rename_i ks r0 hk
    have hk' := (ckeyPath_suffix _ _ _ _ hk).1
    have hgk := ckeyPath_GK inp s r0 ks hinp hk
    split at h
    · cases h
    · rename_i hlim
      split at h
      · rename_i r1
        simp only [] at h
        have hr1 : r1 <:+ inp := ((List.suffix_cons _ _).trans hk').trans hinp
        have hr1' : dropWs r1 <:+ inp := (Cst03.dropWs_suffix r1).trans hr1
        split at h
        · rename_i v r2 hv
          obtain ⟨t, ht, _, _, _⟩ := hP1 _ _ _ _ hr1' hv
          obtain ⟨hrv, hleaf⟩ := ih1 _ _ _ _ hr1' hv
          have hclean : VOK cleanPr v := cvalue_clean _ _ _ _ _ _ hv
          have hr2 : r2 <:+ inp := (ht ▸ suffix_of_append t r2).trans hr1'
          have hr3 : dropWs r2 <:+ inp := (Cst03.dropWs_suffix r2).trans hr2
          split at h
          · cases h
          · rename_i path key hsl
            have eks := splitLast_some _ _ _ hsl
            have hlen : ks.length - 1 = path.length := by rw [eks]; simp
            generalize hv' : v.setDecor (Decor.new (rawBetween inp.length r1 (dropWs r1)) (rawBetween inp.length r2 (dropWs r2))) = v' at h
            have htriple : TripleOK inp d (path, key, v') := by
              refine ⟨fun k hk => hgk k (by rw [eks]; exact List.mem_append_left _ hk), hgk key (by rw [eks]; simp), ?_, ?_⟩
              · subst hv'
                refine ⟨?_, ?_, ?_, (LeafG_setDecor _ _).2 hleaf⟩
                · rw [setDecor_decor]
                  exact DecWs_new inp _ _ (dropWs_rawText inp r1 hr1) (dropWs_rawText inp r2 hr2)
                · rw [RV_setDecor]; simp only []; rw [← hlen]; exact hrv
                · simp only []; rw [← hlen]; omega
              · subst hv'; exact (VOK_clean_setDecor _ _).2 hclean
            have single : ∃ new : List Triple, acc ++ [(path, key, v')] = acc ++ new ∧ (new = [] ∨ dropWs (dropWs r2) = dropWs r2) ∧
                ∀ t ∈ new, TripleOK inp d t :=
              ⟨[(path, key, v')], rfl, Or.inr (dropWs_idem r2), fun t ht => by simp only [List.mem_singleton] at ht; subst ht; exact htriple⟩
            split at h
            · rename_i r4 heq
              have hr4 : r4 <:+ inp := (List.suffix_cons _ r4).trans (heq ▸ hr3)
              split at h
              · rename_i kvs' r5 hrec
                obtain ⟨new', e1, e2, e3⟩ := ih4 _ _ _ _ _ hr4 hrec
                split at h
                · rename_i hl
                  injection h with h1 h2; subst h1; subst h2
                  have : new' = [] := by
                    have hl' := congrArg List.length e1
                    have : kvs'.length = (acc ++ [(path, key, v')]).length := by simpa using hl
                    simp at hl' this
                    exact List.length_eq_zero_iff.1 (by omega)
                  subst this
                  rw [e1, List.append_nil]
                  exact single
                · rename_i hl
                  injection h with h1 h2; subst h1; subst h2
                  have hne : new' ≠ [] := by
                    intro e; subst e
                    simp at e1; subst e1; simp at hl
                  refine ⟨(path, key, v') :: new', by rw [e1]; simp, ?_, ?_⟩
                  · rcases e2 with e2 | e2
                    · exact absurd e2 hne
                    · exact Or.inr e2
                  · intro t ht
                    rcases List.mem_cons.1 ht with ht | ht
                    · subst ht; exact htriple
                    · exact e3 t ht
              · rename_i hne
                exact absurd h (hne _ _)
            · injection h with h1 h2; subst h1; subst h2
              exact single
        · cases h
      · cases h

theorem rstep3 (inp : Bytes) (fuel : Nat) (ih1 : R1 inp fuel) (ih3 : R3 inp fuel) : R3 inp (fuel + 1) := by
  intro d s acc vs r hinp h
  have hP1 := (value_main inp fuel).1
  have reset : ∀ {vs r}, (Res.ok acc s : Res (List CVal)) = Res.ok vs r →
      ∃ (new : List CVal) (qitems : List (Wcn × QVal × Wcn)), vs = acc ++ new ∧
      (∀ v ∈ new, ∃ a b, v.decor = Decor.new a b) ∧ WFItemsQ qitems ∧
      renderItemsQ qitems = encodeElems stripCr inp new true ∧
      semItemsQ qitems = eraseVals new ∧ (depthItemsQ qitems = 0 ∨ d + depthItemsQ qitems < LIMIT) := by
    intro vs r h
    injection h with h1 h2; subst h1
    exact ⟨[], [], by simp, (by intro v hv; cases hv), (by rw [WFItemsQ]; trivial), (by simp [renderItemsQ, encodeElems]),
      (by simp [semItemsQ, eraseVals]), Or.inl (by simp [depthItemsQ])⟩
  unfold carrayElems at h
  split at h
  · exact reset h
  · rename_i s1 hw1
    obtain ⟨w1, hs1⟩ := wsCommentNewline_suffix _ _ _ hw1
    have hs1inp : s1 <:+ inp := (hs1 ▸ suffix_of_append w1 s1).trans hinp
    obtain ⟨q1, hq1, eq1⟩ := wcn_text inp s s1 _ hinp hw1
    split at h
    · cases h
    · exact reset h
    · rename_i v s2 hv
      obtain ⟨tok, htok, _, hdec, _⟩ := hP1 _ _ _ _ hs1inp hv
      obtain ⟨⟨q, qwf, qr, qs, qd⟩, _⟩ := ih1 _ _ _ _ hs1inp hv
      have hs2inp : s2 <:+ inp := (htok ▸ suffix_of_append tok s2).trans hs1inp
      split at h
      · exact reset h
      · rename_i s3 hw2
        obtain ⟨w2, hs3⟩ := wsCommentNewline_suffix _ _ _ hw2
        obtain ⟨q2, hq2, eq2⟩ := wcn_text inp s2 s3 _ hs2inp hw2
        simp only [] at h
        generalize hv' : v.setDecor (Decor.new (rawBetween inp.length s s1) (rawBetween inp.length s2 s3)) = v' at h
        have hd' : ∃ a b, v'.decor = Decor.new a b := ⟨_, _, by rw [← hv', setDecor_decor]⟩
        have hev : eraseVal v' = eraseVal v := by rw [← hv', eraseVal_setDecor]
        have htext : ∀ dp ds, encodeValue stripCr inp v' dp ds = renderWcn q1 ++ (renderQ q ++ renderWcn q2) := by
          intro dp ds
          rw [encodeValue_core, ← hv', setDecor_decor, core_setDecor, eq1, eq2, qr]
          simp [prefixEncode, suffixEncode, Decor.new]
        have single : ∃ (new : List CVal) (qitems : List (Wcn × QVal × Wcn)), acc ++ [v'] = acc ++ new ∧
            (∀ v ∈ new, ∃ a b, v.decor = Decor.new a b) ∧ WFItemsQ qitems ∧
            renderItemsQ qitems = encodeElems stripCr inp new true ∧
            semItemsQ qitems = eraseVals new ∧ (depthItemsQ qitems = 0 ∨ d + depthItemsQ qitems < LIMIT) := by
          refine ⟨[v'], [(q1, q, q2)], rfl, ?_, ?_, ?_, ?_, ?_⟩
          · intro x hx; simp at hx; subst hx; exact hd'
          · rw [WFItemsQ, WFItemsQ]; exact ⟨hq1, qwf, hq2, trivial⟩
          · simp [renderItemsQ, renderItemsSepQ, encodeElems, htext]
          · simp [semItemsQ, eraseVals, hev, qs]
          · simp only [depthItemsQ]
            rcases qd with qd | qd
            · left; rw [qd]; simp
            · right; simpa using qd
        split at h
        · rename_i s4
          have hs4inp : s4 <:+ inp := (List.suffix_cons _ s4).trans ((hs3 ▸ suffix_of_append w2 _).trans hs2inp)
          split at h
          · rename_i vs' r' hrec
            obtain ⟨new', qitems', hvs, hdecs, hwf', hr', hsem', hdep'⟩ := ih3 _ _ _ _ _ hs4inp hrec
            split at h
            · rename_i hlen
              injection h with h1 h2; subst h1; subst h2
              have : new' = [] := by
                have hl := congrArg List.length hvs
                have : vs'.length = (acc ++ [v']).length := by simpa using hlen
                simp at hl this
                exact List.length_eq_zero_iff.1 (by omega)
              subst this
              rw [hvs, List.append_nil]
              exact single
            · rename_i hlen
              injection h with h1 h2; subst h1; subst h2
              have hne : new' ≠ [] := by
                intro e; subst e
                simp at hvs; subst hvs; simp at hlen
              have hqne : ∃ p l, qitems' = p :: l := by
                cases qitems' with
                | nil =>
                  exfalso
                  simp only [semItemsQ] at hsem'
                  cases new' with
                  | nil => exact hne rfl
                  | cons a b => simp [eraseVals] at hsem'
                | cons p l => exact ⟨p, l, rfl⟩
              obtain ⟨p, l, hpl⟩ := hqne
              refine ⟨v' :: new', (q1, q, q2) :: qitems', by rw [hvs]; simp, ?_, ?_, ?_, ?_, ?_⟩
              · intro x hx
                rcases List.mem_cons.1 hx with hx | hx
                · subst hx; exact hd'
                · exact hdecs x hx
              · rw [WFItemsQ]; exact ⟨hq1, qwf, hq2, hwf'⟩
              · simp only [renderItemsQ, encodeElems, if_true]
                rw [htext, encodeElems_false stripCr inp new' hdecs hne, ← hr', hpl, Sound01.renderItemsSepQ_cons]
                simp
              · simp [semItemsQ, eraseVals, hev, qs, hsem']
              · simp only [depthItemsQ]
                rcases qd with qd | qd <;> rcases hdep' with hdep' | hdep'
                · left; rw [qd, hdep']; simp
                · right; rw [qd]; simpa using hdep'
                · right; rw [hdep']; simpa using qd
                · right; omega
          · rename_i hne
            exact absurd h (hne _ _)
        · injection h with h1 h2; subst h1; subst h2
          exact single

theorem rstep2 (inp : Bytes) (fuel : Nat) (ih3 : R3 inp fuel) : R2 inp (fuel + 1) := by
  intro d s vs comma tr r hinp h
  have hP3 := (value_main inp fuel).2.2.1
  unfold carrayValues at h
  split at h
  · injection h with h1 h2; subst h2
    injection h1 with h1 h3; injection h3 with h3 h4; subst h1; subst h3; subst h4
    exact ⟨[], [], (by rw [WFItemsQ]; trivial), Sound01.wcnWF_nil, (by simp [renderItemsQ, encodeElems]),
      (by simp [renderWcn, encRaw, rawText, stripCr]), (by simp [semItemsQ, eraseVals]), Or.inl (by simp [depthItemsQ])⟩
  · split at h
    · rename_i vs0 r0 hel
      obtain ⟨new, qitems, hvs, _, hwf, hr, hsem, hdep⟩ := ih3 _ _ _ _ _ hinp hel
      obtain ⟨_, t, _, ht, _, _⟩ := hP3 _ _ _ _ _ hinp hel
      have hr0 : r0 <:+ inp := (ht ▸ suffix_of_append t r0).trans hinp
      simp only [List.nil_append] at hvs
      subst hvs
      have key : ∀ (comma0 : Bool) (r1 : Bytes), r1 <:+ inp →
          (match wsCommentNewline (List.length r1 + 1) r1 with
            | some r2 => Res.ok (vs0, comma0, rawBetween (List.length inp) r1 r2) r2
            | none => Res.bt) = Res.ok (vs, comma, tr) r →
          ∃ (qitems : List (Wcn × QVal × Wcn)) (tail : Wcn), WFItemsQ qitems ∧ WcnWF tail ∧
            renderItemsQ qitems = encodeElems stripCr inp vs true ∧ renderWcn tail = encRaw stripCr inp tr ∧
            semItemsQ qitems = eraseVals vs ∧ (depthItemsQ qitems = 0 ∨ d + depthItemsQ qitems < LIMIT) := by
        intro comma0 r1 hr1 h
        split at h
        · rename_i r2 hw
          injection h with h1 h2; subst h2
          injection h1 with h1 h3; injection h3 with h3 h4; subst h1; subst h3; subst h4
          obtain ⟨w', hw1, hw2⟩ := wcn_text inp r1 _ _ hr1 hw
          exact ⟨qitems, w', hwf, hw1, hr, hw2, hsem, hdep⟩
        · cases h
      split at h
      rename_i comma0 r1 heq
      split at heq
      · injection heq with e1 e2; subst e1; subst e2
        exact key false r0 hr0 h
      · split at heq
        · rename_i t0
          injection heq with e1 e2; subst e1; subst e2
          exact key true _ ((List.suffix_cons _ _).trans hr0) h
        · injection heq with e1 e2; subst e1; subst e2
          exact key false r0 hr0 h
    · cases h
    · cases h

end TomlVerif.Lemmas.Tiling03More.VS
