import TomlVerif.Model.DeRoutes
/-! Helper definitions and lemmas for Props/C13. -/
namespace TomlVerif.Lemmas.DeRoutes13
open TomlVerif TomlVerif.Model TomlVerif.Model.TomlValue TomlVerif.Model.DeRoutes

/-! the tree holds no date-time leaf -/
mutual
def noDt : TV → Bool
  | .dt _ => false
  | .arr l => noDtList l
  | .tbl items => noDtPairs items
  | _ => true
def noDtList : List TV → Bool
  | [] => true
  | v :: r => noDt v && noDtList r
def noDtPairs : List (Bytes × TV) → Bool
  | [] => true
  | (_, v) :: r => noDt v && noDtPairs r
end

mutual
theorem presValue_eq_presEdit (b : Bool) : ∀ v : TV, noDt v = true → presValue b v = presEdit v
  | .str _, _ => by simp [presValue, presEdit]
  | .int _, _ => by simp [presValue, presEdit]
  | .float _, _ => by simp [presValue, presEdit]
  | .bool _, _ => by simp [presValue, presEdit]
  | .dt _, h => by simp [noDt] at h
  | .arr l, h => by
    simp only [noDt] at h
    simp [presValue, presEdit, presValueList_eq b l h]
  | .tbl items, h => by
    simp only [noDt] at h
    simp [presValue, presEdit, presValuePairs_eq b items h]
theorem presValueList_eq (b : Bool) : ∀ l : List TV, noDtList l = true → presValueList b l = presEditList l
  | [], _ => by simp [presValueList, presEditList]
  | v :: r, h => by
    simp only [noDtList, Bool.and_eq_true] at h
    simp [presValueList, presEditList, presValue_eq_presEdit b v h.1, presValueList_eq b r h.2]
theorem presValuePairs_eq (b : Bool) : ∀ l : List (Bytes × TV), noDtPairs l = true → presValuePairs b l = presEditPairs l
  | [], _ => by simp [presValuePairs, presEditPairs]
  | (k, v) :: r, h => by
    simp only [noDtPairs, Bool.and_eq_true] at h
    simp [presValuePairs, presEditPairs, presValue_eq_presEdit b v h.1, presValuePairs_eq b r h.2]
end

mutual
theorem presValue_true_eq : ∀ v : TV, presValue true v = presEdit v
  | .str _ => by simp [presValue, presEdit]
  | .int _ => by simp [presValue, presEdit]
  | .float _ => by simp [presValue, presEdit]
  | .bool _ => by simp [presValue, presEdit]
  | .dt _ => by simp [presValue, presEdit]
  | .arr l => by simp [presValue, presEdit, presValueList_true_eq l]
  | .tbl items => by simp [presValue, presEdit, presValuePairs_true_eq items]
theorem presValueList_true_eq : ∀ l : List TV, presValueList true l = presEditList l
  | [] => by simp [presValueList, presEditList]
  | v :: r => by simp [presValueList, presEditList, presValue_true_eq v, presValueList_true_eq r]
theorem presValuePairs_true_eq : ∀ l : List (Bytes × TV), presValuePairs true l = presEditPairs l
  | [] => by simp [presValuePairs, presEditPairs]
  | (k, v) :: r => by simp [presValuePairs, presEditPairs, presValue_true_eq v, presValuePairs_true_eq r]
end

/-! ### the serializer direction: without the private struct name the switch `honourName` is not consulted -/

mutual
def noNamed : Ser → Bool
  | .struct name fields => name != NAME && noNamedPairs fields
  | .seq l => noNamedList l
  | .map entries => noNamedPairs entries
  | _ => true
def noNamedList : List Ser → Bool
  | [] => true
  | s :: r => noNamed s && noNamedList r
def noNamedPairs : List (Bytes × Ser) → Bool
  | [] => true
  | (_, s) :: r => noNamed s && noNamedPairs r
end

mutual
theorem valueSerializer_honour_irrelevant (fl : Flavour) :
    ∀ s : Ser, noNamed s = true → valueSerializer fl true s = valueSerializer fl false s
  | .bool _, _ => by simp [valueSerializer]
  | .i64 _, _ => by simp [valueSerializer]
  | .f64 _, _ => by simp [valueSerializer]
  | .str _, _ => by simp [valueSerializer]
  | .seq l, h => by
    simp only [noNamed] at h
    simp [valueSerializer, valueSerializerList_honour_irrelevant fl l h]
  | .map entries, h => by
    simp only [noNamed] at h
    simp [valueSerializer, valueSerializerPairs_honour_irrelevant fl entries h]
  | .struct name fields, h => by
    simp only [noNamed, Bool.and_eq_true, bne_iff_ne, ne_eq] at h
    have hn : (name == NAME) = false := by simpa using h.1
    simp [valueSerializer, valueSerializerPairs_honour_irrelevant fl fields h.2, hn]
theorem valueSerializerList_honour_irrelevant (fl : Flavour) :
    ∀ l : List Ser, noNamedList l = true → valueSerializerList fl true l = valueSerializerList fl false l
  | [], _ => by simp [valueSerializerList]
  | s :: r, h => by
    simp only [noNamedList, Bool.and_eq_true] at h
    simp [valueSerializerList, valueSerializer_honour_irrelevant fl s h.1, valueSerializerList_honour_irrelevant fl r h.2]
theorem valueSerializerPairs_honour_irrelevant (fl : Flavour) :
    ∀ l : List (Bytes × Ser), noNamedPairs l = true → valueSerializerPairs fl true l = valueSerializerPairs fl false l
  | [], _ => by simp [valueSerializerPairs]
  | (k, s) :: r, h => by
    simp only [noNamedPairs, Bool.and_eq_true] at h
    simp [valueSerializerPairs, valueSerializer_honour_irrelevant fl s h.1, valueSerializerPairs_honour_irrelevant fl r h.2]
end

/-- entries tagged with their pass number -/
def noNamedTagged : List (Bytes × (Nat × Ser)) → Bool
  | [] => true
  | (_, (_, s)) :: r => noNamed s && noNamedTagged r

theorem noNamedTagged_filter (p : Bytes × (Nat × Ser) → Bool) :
    ∀ l, noNamedTagged l = true → noNamedTagged (l.filter p) = true
  | [], _ => by simp [noNamedTagged]
  | (k, (n, s)) :: r, h => by
    simp only [noNamedTagged, Bool.and_eq_true] at h
    simp only [List.filter_cons]
    split
    · simp [noNamedTagged, h.1, noNamedTagged_filter p r h.2]
    · exact noNamedTagged_filter p r h.2

theorem noNamedTagged_append : ∀ a b, noNamedTagged a = true → noNamedTagged b = true → noNamedTagged (a ++ b) = true
  | [], b, _, hb => by simpa using hb
  | (k, (n, s)) :: r, b, ha, hb => by
    simp only [noNamedTagged, Bool.and_eq_true] at ha
    simp [noNamedTagged, ha.1, noNamedTagged_append r b ha.2 hb]

theorem noNamedPairs_map : ∀ l : List (Bytes × (Nat × Ser)), noNamedTagged l = true →
    noNamedPairs (l.map fun e => (e.1, e.2.2)) = true
  | [], _ => by simp [noNamedPairs]
  | (k, (n, s)) :: r, h => by
    simp only [noNamedTagged, Bool.and_eq_true] at h
    simp [noNamedPairs, h.1, noNamedPairs_map r h.2]

theorem noNamedPairs_serOrderSer (l : List (Bytes × (Nat × Ser))) (h : noNamedTagged l = true) :
    noNamedPairs (serOrderSer l) = true := by
  unfold serOrderSer
  apply noNamedPairs_map
  exact noNamedTagged_append _ _ (noNamedTagged_append _ _ (noNamedTagged_filter _ l h) (noNamedTagged_filter _ l h))
    (noNamedTagged_filter _ l h)

mutual
theorem serCalls_noNamed : ∀ v : TV, noDt v = true → noNamed (serCalls v) = true
  | .str _, _ => by simp [serCalls, noNamed]
  | .int _, _ => by simp [serCalls, noNamed]
  | .float _, _ => by simp [serCalls, noNamed]
  | .bool _, _ => by simp [serCalls, noNamed]
  | .dt _, h => by simp [noDt] at h
  | .arr l, h => by
    simp only [noDt] at h
    simp [serCalls, noNamed, serCallsList_noNamed l h]
  | .tbl items, h => by
    simp only [noDt] at h
    simp only [serCalls, noNamed]
    exact noNamedPairs_serOrderSer _ (serCallsPairs_noNamed items h)
theorem serCallsList_noNamed : ∀ l : List TV, noDtList l = true → noNamedList (serCallsList l) = true
  | [], _ => by simp [serCallsList, noNamedList]
  | v :: r, h => by
    simp only [noDtList, Bool.and_eq_true] at h
    simp [serCallsList, noNamedList, serCalls_noNamed v h.1, serCallsList_noNamed r h.2]
theorem serCallsPairs_noNamed : ∀ l : List (Bytes × TV), noDtPairs l = true → noNamedTagged (serCallsPairs l) = true
  | [], _ => by simp [serCallsPairs, noNamedTagged]
  | (k, v) :: r, h => by
    simp only [noDtPairs, Bool.and_eq_true] at h
    simp [serCallsPairs, noNamedTagged, serCalls_noNamed v h.1, serCallsPairs_noNamed r h.2]
end

end TomlVerif.Lemmas.DeRoutes13
