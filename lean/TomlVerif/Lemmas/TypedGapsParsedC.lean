import TomlVerif.Lemmas.TypedGapsParsedB
import TomlVerif.Lemmas.SoundDoc01
/-! Lemmas for Props/C13TypedParsed, part C: the definition state machine keeps `GT` (distinct keys in every table at
    every depth, every element of every array of tables included; good values) of the finalized part and of the open
    section; hence every table `parse_document` returns satisfies it. (`State09.WF` only follows the last element of
    each array of tables and ignores values.) -/
namespace TomlVerif.Lemmas.TypedGapsParsed
open TomlVerif TomlVerif.Spec TomlVerif.Model TomlVerif.Model.State
open TomlVerif.Lemmas.DeTyped13 TomlVerif.Lemmas.State09
open TomlVerif.Spec.AstValueQ TomlVerif.Spec.AstDocQ

/-! ## one table -/

theorem gt_newImplicit (d : Bool) : GT (newImplicit d) := gt_of_nil _ rfl

theorem gt_empty : GT Tbl.empty := gt_of_nil _ rfl

theorem gt_item (t : Tbl) (k : Bytes) (item : Item) (h : GT t) (ha : alookup k t.items = some item) : GI item :=
  ((gt_iff t).1 h).2 _ (mem_of_alookup k item _ ha)

theorem gt_aset (t : Tbl) (k : Bytes) (item : Item) (h : GT t) (hi : GI item) :
    GT (t.setItems (aset k item t.items)) := by
  rw [gt_setItems]
  obtain ⟨h1, h2⟩ := (gt_iff t).1 h
  refine ⟨aset_nodup k item _ h1, ?_⟩
  intro p hp
  rcases mem_aset k item _ p hp with hp | hp
  · exact h2 p hp
  · rw [hp]; exact hi

theorem gt_append (t : Tbl) (k : Bytes) (item : Item) (h : GT t) (hn : alookup k t.items = none) (hi : GI item) :
    GT (t.setItems (t.items ++ [(k, item)])) := by
  rw [← aset_of_none k item t.items hn]; exact gt_aset t k item h hi

theorem gt_areplace (t : Tbl) (k : Bytes) (item : Item) (h : GT t) (hi : GI item) :
    GT (t.setItems (areplace k item t.items)) := by
  rw [gt_setItems]
  obtain ⟨h1, h2⟩ := (gt_iff t).1 h
  refine ⟨areplace_nodup k item _ h1, ?_⟩
  intro p hp
  rcases mem_areplace k item _ p hp with hp | hp
  · exact h2 p hp
  · rw [hp]; exact hi

theorem gt_aerase (t : Tbl) (k : Bytes) (h : GT t) : GT (t.setItems (aerase k t.items)) := by
  rw [gt_setItems]
  obtain ⟨h1, h2⟩ := (gt_iff t).1 h
  exact ⟨aerase_nodup k _ h1, fun p hp => h2 p (mem_aerase k _ p hp)⟩

theorem gt_congr_items (u u' : Tbl) (he : u'.items = u.items) (h : GT u) : GT u' := by
  rw [gt_iff] at h ⊢; rw [he]; exact h

/-! ## `descend` -/

theorem descend_good (t t' : Tbl) (path : List Bytes) (d : Bool) (f : Tbl → Option Tbl)
    (h : descend t path d f = some t') (hw : GT t) (hf : ∀ u u', GT u → f u = some u' → GT u') : GT t' := by
  induction path generalizing t t' with
  | nil => exact hf t t' hw (by simpa [descend] using h)
  | cons k ks ih =>
    rcases descend_cons_some t t' k ks d f h with ⟨sub, sub', he, _, hs, ht⟩ | ⟨init, l, l', ha, hca, hs, ht⟩
    · have hsub : GT sub := by
        cases hx : alookup k t.items with
        | none => simp [hx] at he; subst he; exact gt_newImplicit d
        | some it => simp [hx] at he; subst he; exact (gi_table sub).1 (gt_item t k _ hw hx)
      subst ht
      exact gt_aset t k _ hw ((gi_table sub').2 (ih sub sub' hs hsub))
    · have hall := (gi_aot _).1 (gt_item t k _ hw ha)
      have hl : GT l := hall l (by simp)
      subst ht
      refine gt_aset t k _ hw ((gi_aot _).2 ?_)
      intro m hm
      rcases List.mem_append.1 hm with hm | hm
      · exact hall m (List.mem_append_left _ hm)
      · simp at hm; rw [hm]; exact ih l l' hs hl

theorem lookupTbl_good (t u : Tbl) (p : List Bytes) (h : GT t) (hl : lookupTbl t p = some u) : GT u := by
  induction p generalizing t with
  | nil => simp [lookupTbl] at hl; subst hl; exact h
  | cons k ks ih =>
    rw [lookupTbl] at hl
    cases ha : alookup k t.items with
    | none => simp [ha] at hl
    | some it =>
      have hi := gt_item t k it h ha
      cases it with
      | value x => simp [ha] at hl
      | table sub => simp only [ha] at hl; exact ih sub ((gi_table sub).1 hi) hl
      | aot ts =>
        simp only [ha] at hl
        cases hg : ts.getLast? with
        | none => simp [hg] at hl
        | some l =>
          simp only [hg] at hl
          exact ih l ((gi_aot ts).1 hi l (List.mem_of_getLast? hg)) hl

/-! ## the handlers -/

/-- both the finalized part and the open section are good -/
def Inv2 (st : ParseState) : Prop := GT st.root ∧ GT st.current

theorem inv2_init : Inv2 {} := ⟨gt_empty, gt_empty⟩

theorem onKeyval_good (st st' : ParseState) (path : List Bytes) (key : Bytes) (v : Val) (hi : Inv2 st) (hv : GV v)
    (h : onKeyval st path key v = some st') : Inv2 st' := by
  obtain ⟨c, hd, hst⟩ := onKeyval_some st st' path key v h
  subst hst
  refine ⟨hi.1, ?_⟩
  refine descend_good _ _ _ _ _ hd hi.2 ?_
  intro u u' hu hk
  obtain ⟨hn, e, _⟩ := kvF_some _ _ _ _ _ hk
  subst e
  exact gt_append u key _ hu hn ((gi_value v).2 hv)

theorem finF_good (isArray : Bool) (key : Bytes) (cur u u' : Tbl) (hc : GT cur) (hu : GT u)
    (h : finF isArray key cur u = some u') : GT u' := by
  unfold finF at h
  cases isArray with
  | true =>
    simp at h
    obtain ⟨ts, he, e⟩ := finArrF_some _ _ _ _ h
    subst e
    have hts : ∀ m ∈ ts, GT m := by
      cases hx : alookup key u.items with
      | none => simp [hx] at he; subst he; simp
      | some it => simp [hx] at he; subst he; exact (gi_aot ts).1 (gt_item u key _ hu hx)
    refine gt_aset u key _ hu ((gi_aot _).2 ?_)
    intro m hm
    rcases List.mem_append.1 hm with hm | hm
    · exact hts m hm
    · simp at hm; subst hm; exact hc
  | false =>
    simp at h
    rcases finStdF_some _ _ _ _ h with ⟨hn, e⟩ | ⟨t0, ha, _, e⟩
    · subst e; exact gt_append u key _ hu hn ((gi_table cur).2 hc)
    · subst e; exact gt_areplace u key _ hu ((gi_table cur).2 hc)

theorem finalizeTable_good (st sf : ParseState) (hi : Inv2 st) (h : finalizeTable st = some sf) : Inv2 sf := by
  rcases finalizeTable_some st sf h with ⟨_, _, hst⟩ | ⟨pp, key, root', hp, hd, hst⟩
  · subst hst; exact ⟨hi.2, gt_empty⟩
  · subst hst
    exact ⟨descend_good _ _ _ _ _ hd hi.1 fun u u' hu hf => finF_good _ _ _ _ _ hi.2 hu hf, gt_empty⟩

theorem find_good (key : Bytes) (root cur : Tbl) (pp : List Bytes) (hr : GT root) (hc : GT cur) :
    GT ((startTable.find key root pp).getD cur) := by
  rw [find_eq]
  cases hl : lookupTbl root pp with
  | none => simpa using hc
  | some u =>
    have hu := lookupTbl_good root u pp hr hl
    simp only [Option.bind_some, tableAt]
    cases ha : alookup key u.items with
    | none => simpa using hc
    | some it =>
      cases it with
      | value x => simpa using hc
      | aot ts => simpa using hc
      | table x => simpa using (gi_table x).1 (gt_item u key _ hu ha)

theorem startTable_good (st st' : ParseState) (path : List Bytes) (hi : Inv2 st) (h : startTable st path = some st') :
    Inv2 st' := by
  obtain ⟨pp, key, r0, root', hp, hprobe, herase, hst⟩ := startTable_some st st' path h
  subst hst
  refine ⟨?_, ?_⟩
  · refine descend_good _ _ _ _ _ herase hi.1 ?_
    intro u u' hu he
    simp [eraseF] at he; subst he
    exact gt_aerase u key hu
  · exact gt_congr_items ((startTable.find key st.root pp).getD st.current) _ rfl
      (find_good key st.root st.current pp hi.1 hi.2)

theorem arrStartF_good (key : Bytes) (u u' : Tbl) (hu : GT u) (h : arrStartF key u = some u') : GT u' := by
  unfold arrStartF at h
  split at h
  · simp at h; subst h; exact hu
  · simp at h
  · rename_i hn
    simp at h; subst h
    exact gt_append u key _ hu hn ((gi_aot []).2 (by simp))

theorem startArrayTable_good (st st' : ParseState) (path : List Bytes) (hi : Inv2 st)
    (h : startArrayTable st path = some st') : Inv2 st' := by
  obtain ⟨pp, key, root', hp, hd, hst⟩ := startArrayTable_some st st' path h
  subst hst
  refine ⟨?_, ?_⟩
  · exact descend_good _ _ _ _ _ hd hi.1 fun u u' hu he => arrStartF_good key u u' hu he
  · exact gt_congr_items st.current _ rfl hi.2

/-- the values of the key/value statements are good -/
def StmtGood : Stmt → Prop
  | .kv _ _ v => GV v
  | _ => True

theorem step_good (st st' : ParseState) (s : Stmt) (hi : Inv2 st) (hs : StmtGood s) (h : step st s = some st') :
    Inv2 st' := by
  cases s with
  | kv p k v => exact onKeyval_good st st' p k v hi hs h
  | std p =>
    simp only [step, onStdHeader] at h
    cases hf : finalizeTable st with
    | none => simp [hf] at h
    | some sf =>
      simp only [hf] at h
      exact startTable_good sf st' p (finalizeTable_good st sf hi hf) h
  | arr p =>
    simp only [step, onArrayHeader] at h
    cases hf : finalizeTable st with
    | none => simp [hf] at h
    | some sf =>
      simp only [hf] at h
      exact startArrayTable_good sf st' p (finalizeTable_good st sf hi hf) h

theorem run_good (stmts : List Stmt) (st st' : ParseState) (hi : Inv2 st) (hs : ∀ s ∈ stmts, StmtGood s)
    (h : run st stmts = some st') : Inv2 st' := by
  induction stmts generalizing st with
  | nil => simp [run] at h; subst h; exact hi
  | cons s r ih =>
    rw [run] at h
    cases hst : step st s with
    | none => simp [hst] at h
    | some st1 =>
      simp only [hst] at h
      exact ih st1 (step_good st st1 s hi (hs s List.mem_cons_self) hst) (fun x hx => hs x (List.mem_cons_of_mem _ hx)) h

theorem intoDocument_good (st : ParseState) (T : Tbl) (hi : Inv2 st) (h : intoDocument st = some T) : GT T := by
  unfold intoDocument at h
  cases hf : finalizeTable st with
  | none => simp [hf] at h
  | some sf =>
    simp [hf] at h; subst h
    exact (finalizeTable_good st sf hi hf).1

/-! ## the statements of a well-formed document of the grammar -/

theorem line_stmt_good (l : QLine) (hw : l.WF) (s : Stmt) (h : l.stmt = some s) : StmtGood s := by
  cases l with
  | blank ws => simp [QLine.stmt] at h
  | comment ws body => simp [QLine.stmt] at h
  | keyval k w1 v w2 cm =>
    simp [QLine.stmt] at h; subst h
    exact semQ_good v hw.2.2.1
  | std ws k w2 cm => simp [QLine.stmt] at h; subst h; trivial
  | aot ws k w2 cm => simp [QLine.stmt] at h; subst h; trivial

theorem stmtsLinesQ_good (ls : List (QLine × Bool)) (hw : ∀ p ∈ ls, p.1.WF) : ∀ s ∈ stmtsLinesQ ls, StmtGood s := by
  induction ls with
  | nil => intro s hs; simp [stmtsLinesQ] at hs
  | cons p r ih =>
    obtain ⟨l, c⟩ := p
    have hr := ih (fun q hq => hw q (List.mem_cons_of_mem _ hq))
    have hl : l.WF := hw (l, c) List.mem_cons_self
    intro s hs
    simp only [stmtsLinesQ] at hs
    cases hst : l.stmt with
    | none => simp only [hst] at hs; exact hr s hs
    | some s0 =>
      simp only [hst, List.mem_cons] at hs
      rcases hs with rfl | hs
      · exact line_stmt_good l hl _ hst
      · exact hr s hs

theorem stmts_good (d : QDoc) (hw : d.WF) : ∀ s ∈ d.stmts, StmtGood s := by
  intro s hs
  unfold QDoc.stmts at hs
  rcases List.mem_append.1 hs with hs | hs
  · exact stmtsLinesQ_good d.lines hw.1 s hs
  · unfold stmtsLastQ at hs
    cases hl : d.last with
    | none => simp [hl] at hs
    | some l =>
      simp only [hl] at hs
      cases hst : l.stmt with
      | none => simp [hst] at hs
      | some s0 =>
        simp [hst] at hs; subst hs
        exact line_stmt_good l (hw.2 l hl) _ hst

/-- every table the document parser returns: distinct keys in every table at every depth, date-times that print
    and re-read -/
theorem parseDocument_good (s : Bytes) (T : Tbl) (h : Doc.parseDocument s = some T) : GT T := by
  obtain ⟨d, hw, _, hr⟩ := TomlVerif.Lemmas.SoundDoc01.parseDocument_sound s T h
  cases hrun : run {} d.stmts with
  | none => simp [hrun] at hr
  | some st =>
    simp [hrun] at hr
    exact intoDocument_good st T (run_good d.stmts {} st inv2_init (stmts_good d hw) hrun) hr

end TomlVerif.Lemmas.TypedGapsParsed
