import TomlVerif.Gen.Tables
import TomlVerif.Model.MacroArms
/-! Tie 1 for C19: the arms of `toml_internal!` that tools/translate.py reads from /repo — their number, their
    order, every pattern and every expansion — and the helper functions of macros.rs are exactly the ones
    Model/Macro.lean was written against. -/
namespace TomlVerif.Gen.CheckMacro
theorem arms : TomlVerif.Gen.macroArms = TomlVerif.Model.Macro.armHeads := rfl
theorem helpers : TomlVerif.Gen.macroHelpers = TomlVerif.Model.Macro.helperSrc := rfl
theorem arm_count : TomlVerif.Gen.macroArms.length = 65 := by decide
end TomlVerif.Gen.CheckMacro
