import TomlVerif.Gen.Tables
import TomlVerif.Model.Encode06
/-! Tie 1 for the printer: the `DEFAULT_*_DECOR` constants read from `crates/toml_edit/src/table.rs`,
    `value.rs` and `inline_table.rs` equal what `Model/Encode06.lean` uses. -/
namespace TomlVerif.Gen.CheckEncode
open TomlVerif TomlVerif.Model.Encode06

theorem root_decor : Gen.e_table_DEFAULT_ROOT_DECOR = DEFAULT_ROOT_DECOR := by decide
theorem key_decor : Gen.e_table_DEFAULT_KEY_DECOR = DEFAULT_KEY_DECOR := by decide
theorem table_decor : Gen.e_table_DEFAULT_TABLE_DECOR = DEFAULT_TABLE_DECOR := by decide
theorem key_path_decor : Gen.e_table_DEFAULT_KEY_PATH_DECOR = DEFAULT_KEY_PATH_DECOR := by decide
theorem value_decor : Gen.e_value_DEFAULT_VALUE_DECOR = DEFAULT_VALUE_DECOR := by decide
theorem trailing_value_decor : Gen.e_value_DEFAULT_TRAILING_VALUE_DECOR = DEFAULT_TRAILING_VALUE_DECOR := by decide
theorem leading_value_decor : Gen.e_value_DEFAULT_LEADING_VALUE_DECOR = DEFAULT_LEADING_VALUE_DECOR := by decide
theorem inline_key_decor : Gen.e_inline_DEFAULT_INLINE_KEY_DECOR = DEFAULT_INLINE_KEY_DECOR := by decide

/-- the separators the printer writes are the tokens the parser dispatches on -/
theorem separators :
    Gen.array_ARRAY_OPEN = 0x5B ∧ Gen.array_ARRAY_CLOSE = 0x5D ∧ Gen.array_ARRAY_SEP = 0x2C ∧
    Gen.inline_table_INLINE_TABLE_OPEN = 0x7B ∧ Gen.inline_table_INLINE_TABLE_CLOSE = 0x7D ∧
    Gen.inline_table_INLINE_TABLE_SEP = 0x2C ∧ Gen.inline_table_KEYVAL_SEP = 0x3D ∧ Gen.key_DOT_SEP = 0x2E ∧
    Gen.table_STD_TABLE_OPEN = 0x5B ∧ Gen.table_STD_TABLE_CLOSE = 0x5D ∧
    Gen.table_ARRAY_TABLE_OPEN = [0x5B, 0x5B] ∧ Gen.table_ARRAY_TABLE_CLOSE = [0x5D, 0x5D] := by decide

end TomlVerif.Gen.CheckEncode
