import TomlVerif.Gen.Tables
import TomlVerif.Model.Datetime
/-! Tie 1 for the date-time code: the range bounds, digit counts, month-length arms, leap-year
    expression, SCALE table, offset range, delimiters and format strings read from
    `toml_edit/src/parser/datetime.rs` and `toml_datetime/src/datetime.rs` are the ones the models use. -/
namespace TomlVerif.Gen.CheckDatetime
open TomlVerif TomlVerif.Model.Datetime

theorem doc_bounds :
    Gen.doc_date_month = (1, 12, 2, 2) ∧ Gen.doc_date_mday = (1, 31, 2, 2) ∧ Gen.doc_time_hour = (0, 23, 2, 2) ∧
    Gen.doc_time_minute = (0, 59, 2, 2) ∧ Gen.doc_time_second = (0, 60, 2, 2) ∧
    Gen.doc_date_fullyear_digits = (4, 4) ∧ Gen.doc_offset_range = (-1440, 1440) := by decide

theorem doc_scale : Gen.doc_SCALE = (List.range 10).map Doc.scale := by decide

theorem doc_month_arms : Gen.doc_month_arms = "2 if is_leap_year => 29, 2 => 28, 4 | 6 | 9 | 11 => 30, _ => 31," := rfl
theorem doc_leap : Gen.doc_leap = "(year % 4 == 0) && ((year % 100 != 0) || (year % 400 == 0))" := rfl

theorem std_bounds :
    Gen.std_month = [1, 12] ∧ Gen.std_day = [1] ∧ Gen.std_hour = [23] ∧ Gen.std_minute = [59] ∧
    Gen.std_second = [60] ∧ Gen.std_nanosecond = [999999999] ∧ Gen.std_offset_fields = [23, 59] ∧
    Gen.std_offset_total = [-24, 60, 24, 60] ∧ Gen.std_minlen = [3] ∧ Gen.std_frac_digits = [9] ∧
    Gen.std_frac_pow = [8] ∧ Gen.std_time_delims = [0x54, 0x74, 0x20] := by decide

theorem std_month_arms : Gen.std_month_arms = "2 if is_leap_year => 29, 2 => 28, 4 | 6 | 9 | 11 => 30, _ => 31," := rfl
theorem std_leap : Gen.std_leap = "(date.year % 4 == 0) && ((date.year % 100 != 0) || (date.year % 400 == 0))" := rfl
theorem std_display_formats : Gen.std_display_formats =
    ["{:04}-{:02}-{:02}", "{:02}:{:02}:{:02}", ".{}", "Z", "{sign}{hours:02}:{minutes:02}", "{:09}"] := rfl

end TomlVerif.Gen.CheckDatetime
