import TomlVerif.Gen.Tables
/-! Tie 1 for the number code: the float overflow predicate, the radix arms of `integer`, and the
    match arms of the `f64` / `f32` writers are the ones `Model/Numbers.lean` transliterates. -/
namespace TomlVerif.Gen.CheckNumbers
open TomlVerif

/-- `float` rejects a literal exactly when it rounds to an infinity of either sign -/
theorem float_verify : Gen.float_verify = "!f.is_infinite()" := rfl
theorem integer_arms : Gen.integer_arms = [("0x", "hex_int", 16), ("0o", "oct_int", 8), ("0b", "bin_int", 2)] := rfl

theorem write_f64 :
    Gen.write_f64_arms = [("true", "true", "_", "-nan"), ("false", "true", "_", "nan"), ("true", "false", "true", "-0.0"),
                          ("false", "false", "true", "0.0"), ("_", "false", "false", "")] ∧
    Gen.write_f64_inner = ["{self}.0", "{self}"] ∧ Gen.write_f64_integral_test = true := ⟨rfl, rfl, rfl⟩

theorem write_f32 :
    Gen.write_f32_arms = Gen.write_f64_arms ∧ Gen.write_f32_inner = Gen.write_f64_inner ∧
    Gen.write_f32_integral_test = true := ⟨rfl, rfl, rfl⟩

end TomlVerif.Gen.CheckNumbers
