import TomlVerif.Gen.Tables
import TomlVerif.Model.Write
import TomlVerif.Lemmas.ByteDecide
/-! Tie 1 for `crates/toml_write/src/string.rs`: escape arms, thresholds and the default chains
    read from the source equal what `Model/Write.lean` says. -/
namespace TomlVerif.Gen.CheckWrite
open TomlVerif TomlVerif.Model.Write

/-- the escaped writer's arm for a byte, evaluated from the table read from the source -/
def genEscNonQuote (ml : Bool) (b : UInt8) : List UInt8 :=
  match Gen.writeEscArms.find? (fun a => a.1 == b) with
  | some (_, txt, onlyNotMl) => if txt.isEmpty then [b] else if onlyNotMl && ml then [b] else txt
  | none =>
    if b.toNat ≤ Gen.writeCtlLe || b.toNat == Gen.writeCtlEq then
      [0x5C, 0x75, 0x30, 0x30, hexUpper (b.toNat / 16), hexUpper (b.toNat % 16)]
    else [b]

theorem esc_arms_ml : ∀ b, b ≠ 0x22 → genEscNonQuote true b = escNonQuote true b :=
  forall_byte (by decide +kernel)
theorem esc_arms_single : ∀ b, b ≠ 0x22 → genEscNonQuote false b = escNonQuote false b :=
  forall_byte (by decide +kernel)
theorem quote_arm_is_empty : Gen.writeEscArms.find? (fun a => a.1 == 0x22) = some (0x22, [], false) := by decide
theorem max_seq : Gen.writeMaxSeqMl = 2 ∧ Gen.writeMaxSeqSingle = 0 := by decide

def vm (m : ValueMetrics) : Gen.VM := ⟨m.maxSingle, m.maxDouble, m.escapeCodes, m.escape, m.newline⟩
def km (m : KeyMetrics) : Gen.KM := ⟨m.unquoted, m.singleQuotes, m.doubleQuotes, m.escapeCodes, m.escape⟩

theorem guard_v_literal (m) : Gen.guard_v_literal (vm m) = (vAsLiteral m).isNone := by
  obtain ⟨ms, md, ec, e, nl⟩ := m
  by_cases h : 0 < ms <;> cases ec <;> cases nl <;> simp [Gen.guard_v_literal, vAsLiteral, vm, h]
theorem guard_v_ml_literal (m) : Gen.guard_v_ml_literal (vm m) = (vAsMlLiteral m).isNone := by
  obtain ⟨ms, md, ec, e, nl⟩ := m
  by_cases h : 2 < ms <;> cases ec <;> simp [Gen.guard_v_ml_literal, vAsMlLiteral, vm, h]
theorem guard_v_basic_pretty (m) : Gen.guard_v_basic_pretty (vm m) = (vAsBasicPretty m).isNone := by
  obtain ⟨ms, md, ec, e, nl⟩ := m
  by_cases h : 0 < md <;> cases ec <;> cases e <;> cases nl <;>
    simp [Gen.guard_v_basic_pretty, vAsBasicPretty, vm, h]
theorem guard_v_ml_basic_pretty (m) : Gen.guard_v_ml_basic_pretty (vm m) = (vAsMlBasicPretty m).isNone := by
  obtain ⟨ms, md, ec, e, nl⟩ := m
  by_cases h : 2 < md <;> cases ec <;> cases e <;> simp [Gen.guard_v_ml_basic_pretty, vAsMlBasicPretty, vm, h]
theorem guard_k_literal (m) : Gen.guard_k_literal (km m) = (kAsLiteral m).isNone := by
  obtain ⟨u, sq, dq, ec, e⟩ := m
  cases ec <;> cases sq <;> simp [Gen.guard_k_literal, kAsLiteral, km]
theorem guard_k_basic_pretty (m) : Gen.guard_k_basic_pretty (km m) = (kAsBasicPretty m).isNone := by
  obtain ⟨u, sq, dq, ec, e⟩ := m
  cases ec <;> cases e <;> cases dq <;> simp [Gen.guard_k_basic_pretty, kAsBasicPretty, km]

theorem default_chains :
    Gen.vDefaultChain = ["as_basic_pretty", "as_literal", "as_ml_basic_pretty", "as_ml_literal", "as_ml_basic", "as_basic"] ∧
    Gen.kDefaultChain = ["as_unquoted", "as_basic_pretty", "as_literal", "as_basic"] := by
  constructor <;> rfl

end TomlVerif.Gen.CheckWrite
