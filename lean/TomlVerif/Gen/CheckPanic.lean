import TomlVerif.Gen.Tables
import TomlVerif.Model.PanicSites
/-! Tie 1 for C04: the panic-site inventory read from /repo equals the inventory the models account for. -/
namespace TomlVerif.Gen.CheckPanic
theorem inventory : TomlVerif.Gen.panicSites = TomlVerif.Model.panicSiteGuards.map Prod.fst := by decide
end TomlVerif.Gen.CheckPanic
