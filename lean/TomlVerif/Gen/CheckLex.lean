import TomlVerif.Gen.Tables
import TomlVerif.Spec.Classes
import TomlVerif.Lemmas.ByteDecide
/-! Tie 1 for the lexical tables: the byte classes, delimiters and keywords read from
    `/repo/crates/toml_edit/src/parser/*.rs` equal the ABNF classes of `Spec/Classes.lean`.
    Re-checked by the kernel on every run (the `Gen.Tables` file is regenerated first). -/
namespace TomlVerif.Gen.CheckLex
open TomlVerif

theorem wschar : ∀ b, Gen.trivia_WSCHAR b = Spec.isWschar b := forall_byte (by decide +kernel)
theorem non_ascii : ∀ b, Gen.trivia_NON_ASCII b = Spec.isNonAscii b := forall_byte (by decide +kernel)
theorem non_eol : ∀ b, Gen.trivia_NON_EOL b = Spec.isNonEol b := forall_byte (by decide +kernel)
theorem basic_unescaped : ∀ b, Gen.strings_BASIC_UNESCAPED b = Spec.isBasicUnescaped b := forall_byte (by decide +kernel)
theorem mlb_unescaped : ∀ b, Gen.strings_MLB_UNESCAPED b = Spec.isMlbUnescaped b := forall_byte (by decide +kernel)
theorem literal_char : ∀ b, Gen.strings_LITERAL_CHAR b = Spec.isLiteralChar b := forall_byte (by decide +kernel)
theorem mll_char : ∀ b, Gen.strings_MLL_CHAR b = Spec.isMllChar b := forall_byte (by decide +kernel)
theorem unquoted_char : ∀ b, Gen.key_UNQUOTED_CHAR b = Spec.isUnquotedChar b := forall_byte (by decide +kernel)
theorem digit : ∀ b, Gen.numbers_DIGIT b = Spec.isDigit b := forall_byte (by decide +kernel)
theorem digit_dt : ∀ b, Gen.datetime_DIGIT b = Spec.isDigit b := forall_byte (by decide +kernel)
theorem digit1_9 : ∀ b, Gen.numbers_DIGIT1_9 b = Spec.isDigit1_9 b := forall_byte (by decide +kernel)
theorem digit0_7 : ∀ b, Gen.numbers_DIGIT0_7 b = Spec.isDigit0_7 b := forall_byte (by decide +kernel)
theorem digit0_1 : ∀ b, Gen.numbers_DIGIT0_1 b = Spec.isDigit0_1 b := forall_byte (by decide +kernel)
theorem hexdig : ∀ b, Gen.numbers_HEXDIG b = Spec.isHexdig b := forall_byte (by decide +kernel)
theorem time_delim : ∀ b, Gen.datetime_TIME_DELIM b = (b == 0x54 || b == 0x74 || b == 0x20) := forall_byte (by decide +kernel)

theorem punctuation :
    Gen.strings_QUOTATION_MARK = 0x22 ∧ Gen.strings_APOSTROPHE = 0x27 ∧ Gen.strings_ESCAPE = 0x5C ∧
    Gen.strings_ML_BASIC_STRING_DELIM = [0x22, 0x22, 0x22] ∧ Gen.strings_ML_LITERAL_STRING_DELIM = [0x27, 0x27, 0x27] ∧
    Gen.trivia_COMMENT_START_SYMBOL = 0x23 ∧ Gen.trivia_LF = 0x0A ∧ Gen.trivia_CR = 0x0D ∧
    Gen.key_DOT_SEP = 0x2E ∧ Gen.inline_table_KEYVAL_SEP = 0x3D ∧
    Gen.array_ARRAY_OPEN = 0x5B ∧ Gen.array_ARRAY_CLOSE = 0x5D ∧ Gen.array_ARRAY_SEP = 0x2C ∧
    Gen.inline_table_INLINE_TABLE_OPEN = 0x7B ∧ Gen.inline_table_INLINE_TABLE_CLOSE = 0x7D ∧
    Gen.inline_table_INLINE_TABLE_SEP = 0x2C ∧
    Gen.table_STD_TABLE_OPEN = 0x5B ∧ Gen.table_STD_TABLE_CLOSE = 0x5D ∧
    Gen.table_ARRAY_TABLE_OPEN = [0x5B, 0x5B] ∧ Gen.table_ARRAY_TABLE_CLOSE = [0x5D, 0x5D] := by decide

theorem keywords :
    Gen.numbers_TRUE = [0x74, 0x72, 0x75, 0x65] ∧ Gen.numbers_FALSE = [0x66, 0x61, 0x6c, 0x73, 0x65] ∧
    Gen.numbers_INF = [0x69, 0x6e, 0x66] ∧ Gen.numbers_NAN = [0x6e, 0x61, 0x6e] ∧
    Gen.numbers_HEX_PREFIX = [0x30, 0x78] ∧ Gen.numbers_OCT_PREFIX = [0x30, 0x6f] ∧
    Gen.numbers_BIN_PREFIX = [0x30, 0x62] := by decide

/-- the nine arms of `escape_seq_char` -/
theorem escape_arms :
    Gen.escapeArms = [(0x62, 0, 8), (0x66, 0, 12), (0x6E, 0, 10), (0x72, 0, 13), (0x74, 0, 9),
                      (0x75, 1, 4), (0x55, 1, 8), (0x5C, 0, 0x5C), (0x22, 0, 0x22)] := by decide

theorem limit : Gen.parser_mod_LIMIT = 80 := by decide

end TomlVerif.Gen.CheckLex
