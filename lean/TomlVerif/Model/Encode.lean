import TomlVerif.Model.Cst
/-! Model of `ImDocument::into_mut` (`despan`: every span becomes the slice of the input it denotes)
    followed by `impl Display for DocumentMut` (`encode.rs`), and of the span listing of the C14
    harness (`harness/src/c03.rs`, `spans_tbl` / `spans_val`).

    Decor goes through `RawString::encode_with_default`, which writes the text split at every
    `'\r'` (so all CRs are dropped); key and value reprs are written verbatim (`display_repr`). -/
namespace TomlVerif.Model.Encode
open TomlVerif TomlVerif.Model TomlVerif.Model.Cst

/-- `input.get(a..b)` -/
def slice (inp : Bytes) (a b : Nat) : Bytes := (inp.drop a).take (b - a)

/-- `for part in raw.split('\r') { write!(buf, "{part}") }` -/
def stripCr (s : Bytes) : Bytes := s.filter (fun b => b != 0x0D)

/-- `RawString::despan` then `as_str` -/
def rawText (inp : Bytes) : Raw → Bytes
  | .empty => []
  | .spanned a b => slice inp a b

/-- `RawString::encode_with_default` on a despanned string. The printer is written over the
    transformation `f` applied to every decor text: the real printer is `f = stripCr`; `f = id`
    gives the verbatim concatenation of the recorded pieces (used to state tiling). -/
def encRaw (f : Bytes → Bytes) (inp : Bytes) (r : Raw) : Bytes := f (rawText inp r)

/-- `Decor::prefix_encode` -/
def prefixEncode (f : Bytes → Bytes) (inp : Bytes) (d : Decor) (dflt : Bytes) : Bytes :=
  match d.pre with
  | some r => encRaw f inp r
  | none => dflt

/-- `Decor::suffix_encode` -/
def suffixEncode (f : Bytes → Bytes) (inp : Bytes) (d : Decor) (dflt : Bytes) : Bytes :=
  match d.suf with
  | some r => encRaw f inp r
  | none => dflt

/-- `encode_key` with `input = None`: `display_repr`, verbatim -/
def encodeKey (inp : Bytes) (k : CKey) : Bytes := rawText inp k.repr

def encodeKeyPathAux (f : Bytes → Bytes) (inp : Bytes) (leaf : Decor) (dp ds : Bytes) : Bool → List CKey → Bytes
  | _, [] => []
  | first, k :: rest =>
    (if first then prefixEncode f inp leaf dp else [0x2E] ++ prefixEncode f inp k.dotted [])
    ++ encodeKey inp k
    ++ (if rest.isEmpty then suffixEncode f inp leaf ds else suffixEncode f inp k.dotted [])
    ++ encodeKeyPathAux f inp leaf dp ds false rest

/-- `encode_key_path` / `encode_key_path_ref`; `dp`, `ds` = the default decor -/
def encodeKeyPath (f : Bytes → Bytes) (inp : Bytes) (ks : List CKey) (dp ds : Bytes) : Bytes :=
  match ks.getLast? with
  | none => []      -- `expect("always at least one key")`
  | some l => encodeKeyPathAux f inp l.leaf dp ds true ks

mutual
/-- number of entries `InlineTable::get_values` returns -/
def countInl : List (CKey × CVal) → Nat
  | [] => 0
  | (_, v) :: r => countVal v + countInl r
/-- one entry, or the entries of a dotted inline table -/
def countVal : CVal → Nat
  | .inl sub _ _ dot _ _ => if dot then countInl sub else 1
  | .scalar _ _ _ => 1
  | .arr _ _ _ _ _ => 1
end

mutual
/-- `encode_value` with default decor `(dp, ds)` -/
def encodeValue (f : Bytes → Bytes) (inp : Bytes) : CVal → Bytes → Bytes → Bytes
  | .scalar _ repr decor, dp, ds =>
    prefixEncode f inp decor dp ++ rawText inp repr ++ suffixEncode f inp decor ds
  | .arr items trailing comma decor _, dp, ds =>
    prefixEncode f inp decor dp ++ [0x5B] ++ encodeElems f inp items true
      ++ (if comma && !items.isEmpty then [0x2C] else []) ++ encRaw f inp trailing ++ [0x5D]
      ++ suffixEncode f inp decor ds
  | .inl items preamble _ _ decor _, dp, ds =>
    prefixEncode f inp decor dp ++ [0x7B] ++ encRaw f inp preamble
      ++ (encodeInl f inp items [] 0 (countInl items)).1 ++ [0x7D]
      ++ suffixEncode f inp decor ds
/-- the element loop of `encode_array` -/
def encodeElems (f : Bytes → Bytes) (inp : Bytes) : List CVal → Bool → Bytes
  | [], _ => []
  | v :: r, first =>
    (if first then encodeValue f inp v [] [] else [0x2C] ++ encodeValue f inp v [0x20] [])
      ++ encodeElems f inp r false
/-- `InlineTable::get_values` fused with the child loop of `encode_table`: `parent` is the key
    path so far, `i` the index of the next child, `len` the number of children -/
def encodeInl (f : Bytes → Bytes) (inp : Bytes) : List (CKey × CVal) → List CKey → Nat → Nat → Bytes × Nat
  | [], _, i, _ => ([], i)
  | (k, v) :: r, parent, i, len =>
    match v with
    | .inl sub pre imp dot dec sp =>
      if dot then
        let o1 := encodeInl f inp sub (parent ++ [k]) i len
        let o2 := encodeInl f inp r parent o1.2 len
        (o1.1 ++ o2.1, o2.2)
      else
        let o1 := (if i != 0 then [0x2C] else []) ++ encodeKeyPath f inp (parent ++ [k]) [0x20] [0x20] ++ [0x3D]
          ++ encodeValue f inp (.inl sub pre imp dot dec sp) [0x20] (if i + 1 == len then [0x20] else [])
        let o2 := encodeInl f inp r parent (i + 1) len
        (o1 ++ o2.1, o2.2)
    | .scalar a b c =>
      let o1 := (if i != 0 then [0x2C] else []) ++ encodeKeyPath f inp (parent ++ [k]) [0x20] [0x20] ++ [0x3D]
        ++ encodeValue f inp (.scalar a b c) [0x20] (if i + 1 == len then [0x20] else [])
      let o2 := encodeInl f inp r parent (i + 1) len
      (o1 ++ o2.1, o2.2)
    | .arr a b c d e =>
      let o1 := (if i != 0 then [0x2C] else []) ++ encodeKeyPath f inp (parent ++ [k]) [0x20] [0x20] ++ [0x3D]
        ++ encodeValue f inp (.arr a b c d e) [0x20] (if i + 1 == len then [0x20] else [])
      let o2 := encodeInl f inp r parent (i + 1) len
      (o1 ++ o2.1, o2.2)
end

mutual
/-- `InlineTable::append_values` (as `Table::append_values` calls it for a dotted inline table) -/
def valuesInl : List (CKey × CVal) → List CKey → List (List CKey × CVal)
  | [], _ => []
  | (k, v) :: r, parent => valuesVal v (parent ++ [k]) ++ valuesInl r parent
/-- a value under key path `path`: itself, or (dotted inline table) its flattened entries -/
def valuesVal : CVal → List CKey → List (List CKey × CVal)
  | .inl sub pre imp dot dec sp, path =>
    if dot then valuesInl sub path else [(path, .inl sub pre imp dot dec sp)]
  | .scalar a b c, path => [(path, .scalar a b c)]
  | .arr a b c d e, path => [(path, .arr a b c d e)]
end

mutual
/-- `Table::append_values`: the key paths and values that are visually children of a table -/
def valuesTbl : List (CKey × CItem) → List CKey → List (List CKey × CVal)
  | [], _ => []
  | (k, it) :: r, parent =>
    (match it with
     | .table t => valuesDotted t (parent ++ [k])
     | .value v =>
       (match v with
        | .inl sub _ _ dot _ _ => if dot then valuesInl sub (parent ++ [k]) else [(parent ++ [k], v)]
        | _ => [(parent ++ [k], v)])
     | .aot _ _ => []) ++ valuesTbl r parent
/-- `Item::Table(table) if table.is_dotted() => table.append_values(&path, values)` -/
def valuesDotted : CTbl → List CKey → List (List CKey × CVal)
  | .mk items _ dot _ _ _, path => if dot then valuesTbl items path else []
end

/-- one `tables.push((last_position, t, p.clone(), is_array))` -/
structure Entry where
  pos : Nat
  tbl : CTbl
  path : List CKey
  isArr : Bool

mutual
/-- `visit_nested_tables` with the callback of `Display for DocumentMut`; the state is
    `(last_position, tables)` -/
def visitTbl : CTbl → List CKey → Bool → Nat × List Entry → Nat × List Entry
  | .mk items imp dot p dec sp, path, isArr, st =>
    let st1 : Nat × List Entry :=
      if dot then st
      else
        let last := p.getD st.1
        (last, st.2 ++ [⟨last, .mk items imp dot p dec sp, path, isArr⟩])
    visitItems items path st1
def visitItems : List (CKey × CItem) → List CKey → Nat × List Entry → Nat × List Entry
  | [], _, st => st
  | (k, it) :: r, path, st =>
    match it with
    | .table t => visitItems r path (visitTbl t (path ++ [k]) false st)
    | .aot ts _ => visitItems r path (visitAot ts (path ++ [k]) st)
    | .value _ => visitItems r path st
def visitAot : List CTbl → List CKey → Nat × List Entry → Nat × List Entry
  | [], _, st => st
  | t :: r, path, st => visitAot r path (visitTbl t path true st)
end

/-- stable insertion (used from the right): before the first entry whose position is not smaller -/
def insertEntry (e : Entry) : List Entry → List Entry
  | [] => [e]
  | x :: r => if e.pos ≤ x.pos then e :: x :: r else x :: insertEntry e r

/-- `tables.sort_by_key(|&(id, _, _, _)| id)` (stable) -/
def sortEntries (l : List Entry) : List Entry := l.foldr insertEntry []

/-- the body loop of `visit_table` -/
def encodeBody (f : Bytes → Bytes) (inp : Bytes) : List (List CKey × CVal) → Bytes
  | [] => []
  | (kp, v) :: r =>
    encodeKeyPath f inp kp [] [0x20] ++ [0x3D] ++ encodeValue f inp v [0x20] [] ++ [0x0A] ++ encodeBody f inp r

/-- `visit_table`; returns the text and the new `first_table` -/
def visitTable (f : Bytes → Bytes) (inp : Bytes) (e : Entry) (firstTable : Bool) : Bytes × Bool :=
  let children := valuesTbl e.tbl.items []
  let visible := !(e.tbl.implicit && children.isEmpty)
  let hdr : Bytes × Bool :=
    if e.path.isEmpty then ([], if !children.isEmpty then false else firstTable)
    else if e.isArr then
      (prefixEncode f inp e.tbl.decor (if firstTable then [] else [0x0A]) ++ [0x5B, 0x5B]
        ++ encodeKeyPath f inp e.path [] [] ++ [0x5D, 0x5D] ++ suffixEncode f inp e.tbl.decor [] ++ [0x0A], false)
    else if visible then
      (prefixEncode f inp e.tbl.decor (if firstTable then [] else [0x0A]) ++ [0x5B]
        ++ encodeKeyPath f inp e.path [] [] ++ [0x5D] ++ suffixEncode f inp e.tbl.decor [] ++ [0x0A], false)
    else ([], firstTable)
  (hdr.1 ++ encodeBody f inp children, hdr.2)

def visitTables (f : Bytes → Bytes) (inp : Bytes) : List Entry → Bool → Bytes
  | [], _ => []
  | e :: r, ft =>
    let o := visitTable f inp e ft
    o.1 ++ visitTables f inp r o.2

/-- `im.into_mut().to_string()` over the decor transformation `f` -/
def printDocG (f : Bytes → Bytes) (inp : Bytes) (d : CDoc) : Bytes :=
  let tables := sortEntries (visitTbl d.root [] false (0, [])).2
  prefixEncode f inp d.root.decor [] ++ visitTables f inp tables true
    ++ suffixEncode f inp d.root.decor [] ++ encRaw f inp d.trailing

/-- `im.into_mut().to_string()` -/
def printDoc (inp : Bytes) (d : CDoc) : Bytes := printDocG stripCr inp d

/-- the recorded pieces concatenated verbatim (no CR dropped) -/
def verbatimDoc (inp : Bytes) (d : CDoc) : Bytes := printDocG id inp d

/-- value-level printing (`Value::to_string` after `despan`): default decor `("", "")` -/
def printValue (inp : Bytes) (v : CVal) : Bytes := encodeValue stripCr inp v [] []

def verbatimValue (inp : Bytes) (v : CVal) : Bytes := encodeValue id inp v [] []

/-! ### the span listing of the C14 harness -/

def showSpan : Option Span → String
  | some (a, b) => toString a ++ ".." ++ toString b
  | none => "-"

mutual
/-- `spans_val` -/
def spansVal : CVal → String → List String
  | .scalar _ _ _, _ => []
  | .arr items _ _ _ _, path => spansElems items path 0
  | .inl items _ _ _ _ _, path => spansKvs items path
def spansElems : List CVal → String → Nat → List String
  | [], _, _ => []
  | x :: r, path, i =>
    let p := path ++ "/" ++ toString i
    (p ++ "=-:" ++ showSpan x.span) :: (spansVal x p ++ spansElems r path (i + 1))
def spansKvs : List (CKey × CVal) → String → List String
  | [], _ => []
  | (k, x) :: r, path =>
    let p := path ++ "/" ++ hexOut k.key
    (p ++ "=" ++ showSpan k.repr.span ++ ":" ++ showSpan x.span) :: (spansVal x p ++ spansKvs r path)
end

mutual
/-- `spans_tbl` -/
def spansTbl : CTbl → String → List String
  | .mk items _ _ _ _ _, path => spansItems items path
def spansItems : List (CKey × CItem) → String → List String
  | [], _ => []
  | (k, it) :: r, path =>
    let p := path ++ "/" ++ hexOut k.key
    (p ++ "=" ++ showSpan k.repr.span ++ ":" ++ showSpan it.span) ::
      ((match it with
        | .value v => spansVal v p
        | .table t => spansTbl t p
        | .aot ts _ => spansAot ts p 0) ++ spansItems r path)
def spansAot : List CTbl → String → Nat → List String
  | [], _, _ => []
  | t :: r, p, i =>
    let q := p ++ "/" ++ toString i
    (q ++ "=-:" ++ showSpan t.span) :: (spansTbl t q ++ spansAot r p (i + 1))
end

/-- the `spans=` list of `tvh c14` -/
def spanList (d : CDoc) : List String :=
  ("root=-:" ++ showSpan d.root.span) :: spansTbl d.root ""

end TomlVerif.Model.Encode
