import TomlVerif.Model.Strings
/-! Model of `crates/toml_edit/src/parser/key.rs`: `simple_key`, `unquoted_key`. -/
namespace TomlVerif.Model.Key
open TomlVerif TomlVerif.Spec TomlVerif.Model.Strings

def takeUnquoted : Bytes → Bytes × Bytes
  | [] => ([], [])
  | b :: r => if isUnquotedChar b then let (a, t) := takeUnquoted r; (b :: a, t) else ([], b :: r)

/-- `unquoted_key = take_while(1.., UNQUOTED_CHAR)` -/
def unquotedKey (s : Bytes) : Res Bytes :=
  match takeUnquoted s with
  | ([], _) => .bt
  | (k, r) => .ok k r

/-- `simple_key`: dispatch on the first byte -/
def simpleKey (s : Bytes) : Res Bytes :=
  match s with
  | [] => .bt
  | b :: _ =>
    if b == 0x22 then basicString s
    else if b == 0x27 then literalString s
    else unquotedKey s

end TomlVerif.Model.Key
