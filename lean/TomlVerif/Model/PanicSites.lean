/-! The panic sites of the anchored files that the models account for, with the guard that makes
    each unreachable. A site appearing in the source that is not listed here (or a listed one that
    disappeared) breaks `Gen.CheckPanic.inventory` — the tie is re-checked on every run. -/
namespace TomlVerif.Model

/-- (site, why it cannot fire) -/
def panicSiteGuards : List (String × String) := [
  ("toml_edit/parser/trivia.rs:from_utf8_unchecked:expect", "debug-only UTF-8 check of byte runs taken with ASCII-only classes: every class passed is ⊆ 0x00-0x7F (Props.C04.T04_ascii_*)"),
  ("toml_edit/parser/numbers.rs:special_float:unreachable!", "after opt(one_of(('+','-'))) the sign is None, '+' or '-' (Model.Numbers.specialFloat has exactly these three arms)"),
  ("toml_edit/parser/datetime.rs:time_offset:unreachable!", "after one_of(('+','-')) the sign is '+' or '-' (Model.Datetime.Doc.timeOffset)"),
  ("toml_edit/parser/datetime.rs:date_fullyear:expect", "parse::<u16> of exactly 4 ASCII digits ≤ 9999 (digits4)"),
  ("toml_edit/parser/datetime.rs:date_month:expect", "parse::<u8> of exactly 2 ASCII digits ≤ 99 (digits2)"),
  ("toml_edit/parser/datetime.rs:date_mday:expect", "parse::<u8> of exactly 2 ASCII digits ≤ 99 (digits2)"),
  ("toml_edit/parser/datetime.rs:time_hour:expect", "parse::<u8> of exactly 2 ASCII digits ≤ 99 (digits2)"),
  ("toml_edit/parser/datetime.rs:time_minute:expect", "parse::<u8> of exactly 2 ASCII digits ≤ 99 (digits2)"),
  ("toml_edit/parser/datetime.rs:time_second:expect", "parse::<u8> of exactly 2 ASCII digits ≤ 99 (digits2)"),
  ("toml_edit/parser/key.rs:key:expect", "first_mut() on the result of separated(1..): non-empty (Props.C05.T05_keypath_len)"),
  ("toml_edit/parser/key.rs:key:expect", "last_mut() on the result of separated(1..): non-empty (Props.C05.T05_keypath_len)"),
  ("toml_edit/parser/state.rs:finalize_table:assert!", "root is empty whenever the current path is empty: only the first finalize has an empty path (State model: Inv of Lemmas.State09)"),
  ("toml_edit/parser/state.rs:descend_path:unwrap()", "array.get_mut(len-1) on a non-empty array of tables: an array of tables in `root` is pushed to before any later header descends through it"),
  ("toml_edit/parser/state.rs:descend_path:unreachable!", "Item::None is never stored by the parser (the State model has no such constructor)"),
  ("toml_edit/parser/document.rs:parse_keyval:expect", "path.pop() on a key path from separated(1..)"),
  ("toml_edit/parser/inline_table.rs:keyval:expect", "path.pop() on a key path from separated(1..)"),
  ("toml_edit/parser/error.rs:duplicate_key:assert!", "called with i = path.len() - 1 on non-empty paths"),
  ("toml_edit/parser/error.rs:duplicate_key:unwrap()", "path[..i] formatting of the same non-empty path"),
  ("toml_edit/parser/error.rs:extend_wrong_type:assert!", "called with the loop index i < path.len()"),
  ("toml_edit/raw_string.rs:to_str:panic!", "span within the document: Props.C14 span bounds"),
  ("toml_edit/raw_string.rs:to_str_with_default:panic!", "span within the document: Props.C14 span bounds"),
  ("toml_edit/raw_string.rs:despan:panic!", "span within the document: Props.C14 span bounds"),
  ("toml_edit/error.rs:new:expect", "String::from_utf8 of the original &str"),
  ("toml_edit/error.rs:fmt:expect", "nth(line) with line ≤ number of newlines (Props.C15.T15_render_total)"),
  ("toml_datetime/datetime.rs:type_name:unreachable!", "Datetime with neither date nor time is never produced by either parser (Props.C12 ShapeOk); constructing one by hand is outside the entry points")
]

end TomlVerif.Model
