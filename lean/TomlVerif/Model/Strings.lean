import TomlVerif.Spec.Classes
import TomlVerif.Spec.Utf8
/-! Model of `crates/toml_edit/src/parser/strings.rs` (and `newline`, `ws` of trivia.rs).
    Input and decoded strings are byte lists. Loops take fuel; callers pass `input.length + 1`. -/
namespace TomlVerif.Model.Strings
open TomlVerif TomlVerif.Spec

/-- `newline`: LF or CRLF. Returns the rest after the newline. -/
def newline? : Bytes → Option Bytes
  | 0x0A :: r => some r
  | 0x0D :: 0x0A :: r => some r
  | _ => none

def dropWs : Bytes → Bytes
  | [] => []
  | b :: r => if isWschar b then dropWs r else b :: r

/-- `ws_newline = *( wschar / newline )` -/
def dropWsNewline : Nat → Bytes → Bytes
  | 0, s => s
  | fuel + 1, s =>
    match s with
    | [] => []
    | b :: r =>
      if isWschar b then dropWsNewline fuel r
      else match newline? (b :: r) with
        | some r' => dropWsNewline fuel r'
        | none => b :: r

def hexVal (b : Byte) : Option Nat :=
  if isDigit b then some (b.toNat - 0x30)
  else if inR 0x41 0x46 b then some (b.toNat - 0x37)
  else if inR 0x61 0x66 b then some (b.toNat - 0x57)
  else none

/-- value of `n` hex digits at the head of the input (`u32::from_str_radix(_, 16)`) -/
def hexN : Nat → Bytes → Nat → Option (Nat × Bytes)
  | 0, s, acc => some (acc, s)
  | n + 1, b :: r, acc => match hexVal b with
    | some v => hexN n r (acc * 16 + v)
    | none => none
  | _ + 1, [], _ => none

/-- `hexescape::<N>` under `cut_err`: N hex digits denoting a scalar value, as UTF-8 bytes -/
def hexescape (n : Nat) (s : Bytes) : Res Bytes :=
  match hexN n s 0 with
  | some (cp, r) => if Utf8.isScalar cp then .ok (Utf8.encode cp) r else .cut
  | none => .cut

/-- `escape_seq_char` (after the backslash has been consumed) -/
def escapeSeqChar : Bytes → Res Bytes
  | [] => .bt
  | b :: r =>
    if b == 0x62 then .ok [0x08] r
    else if b == 0x66 then .ok [0x0C] r
    else if b == 0x6E then .ok [0x0A] r
    else if b == 0x72 then .ok [0x0D] r
    else if b == 0x74 then .ok [0x09] r
    else if b == 0x75 then hexescape 4 r
    else if b == 0x55 then hexescape 8 r
    else if b == 0x5C then .ok [0x5C] r
    else if b == 0x22 then .ok [0x22] r
    else .cut

/-- body of `basic_string` after the opening quote: `*basic-char quotation-mark` -/
def basicBody : Nat → Bytes → Bytes → Res Bytes
  | 0, _, _ => .cut
  | fuel + 1, s, acc =>
    match s with
    | [] => .cut
    | b :: r =>
      if isBasicUnescaped b then basicBody fuel r (acc ++ [b])
      else if b == 0x5C then
        match escapeSeqChar r with
        | .ok c r' => basicBody fuel r' (acc ++ c)
        | _ => .cut
      else if b == 0x22 then .ok acc r
      else .cut

/-- `basic_string` -/
def basicString (s : Bytes) : Res Bytes :=
  match s with
  | 0x22 :: r => basicBody (r.length + 1) r []
  | _ => .bt

def takeLiteral : Bytes → Bytes × Bytes
  | [] => ([], [])
  | b :: r => if isLiteralChar b then let (a, t) := takeLiteral r; (b :: a, t) else ([], b :: r)

/-- `literal_string` -/
def literalString (s : Bytes) : Res Bytes :=
  match s with
  | 0x27 :: r =>
    match takeLiteral r with
    | (body, 0x27 :: t) => .ok body t
    | _ => .cut
  | _ => .bt

def countLeading (q : Byte) : Bytes → Nat
  | [] => 0
  | b :: r => if b == q then countLeading q r + 1 else 0

/-- `mlb_escaped_nl` at a backslash (`s` is the input after the backslash): `ws newline *(wschar/newline)`,
    repeated; `none` when the first iteration does not match. -/
def mlbEscapedNl (fuel : Nat) (s : Bytes) : Option Bytes :=
  match newline? (dropWs s) with
  | some r => some (dropWsNewline fuel r)
  | none => none

/-- `ml_basic_body` followed by the closing delimiter, fused into one pass over the input.
    At a run of `n` quotation marks: `n ≥ 3` closes (one or two of them belong to the body when
    `n` is 4 or ≥ 5); a shorter run is content when something follows it. -/
def mlBasicBody : Nat → Bytes → Bytes → Res Bytes
  | 0, _, _ => .cut
  | fuel + 1, s, acc =>
    match s with
    | [] => .cut
    | b :: r =>
      if isMlbUnescaped b then mlBasicBody fuel r (acc ++ [b])
      else if b == 0x5C then
        match mlbEscapedNl (r.length + 1) r with
        | some r' => mlBasicBody fuel r' acc
        | none =>
          match escapeSeqChar r with
          | .ok c r' => mlBasicBody fuel r' (acc ++ c)
          | _ => .cut
      else if b == 0x22 then
        let n := countLeading 0x22 (b :: r)
        if 3 ≤ n then .ok (acc ++ List.replicate (min (n - 3) 2) 0x22) ((b :: r).drop (min n 5))
        else if ((b :: r).drop n).isEmpty then .cut
        else mlBasicBody fuel r (acc ++ [0x22])
      else match newline? (b :: r) with
        | some r' => mlBasicBody fuel r' (acc ++ [0x0A])
        | none => .cut

/-- `ml_basic_string` -/
def mlBasicString (s : Bytes) : Res Bytes :=
  match s with
  | 0x22 :: 0x22 :: 0x22 :: r =>
    let r := (newline? r).getD r
    mlBasicBody (r.length + 1) r []
  | _ => .bt

/-- `ml_literal_body` + closing delimiter, same shape; CRLF is normalised to LF by the caller's `replace`. -/
def mlLiteralBody : Nat → Bytes → Bytes → Res Bytes
  | 0, _, _ => .cut
  | fuel + 1, s, acc =>
    match s with
    | [] => .cut
    | b :: r =>
      if isMllChar b then mlLiteralBody fuel r (acc ++ [b])
      else if b == 0x27 then
        let n := countLeading 0x27 (b :: r)
        if 3 ≤ n then .ok (acc ++ List.replicate (min (n - 3) 2) 0x27) ((b :: r).drop (min n 5))
        else if ((b :: r).drop n).isEmpty then .cut
        else mlLiteralBody fuel r (acc ++ [0x27])
      else match newline? (b :: r) with
        | some r' => mlLiteralBody fuel r' (acc ++ [0x0A])
        | none => .cut

def mlLiteralString (s : Bytes) : Res Bytes :=
  match s with
  | 0x27 :: 0x27 :: 0x27 :: r =>
    let r := (newline? r).getD r
    mlLiteralBody (r.length + 1) r []
  | _ => .bt

/-- `string = ml-basic-string / basic-string / ml-literal-string / literal-string` (`alt`: next branch on `bt` only) -/
def string (s : Bytes) : Res Bytes :=
  match mlBasicString s with
  | .bt => match basicString s with
    | .bt => match mlLiteralString s with
      | .bt => literalString s
      | r => r
    | r => r
  | r => r

end TomlVerif.Model.Strings
