import TomlVerif.Model.DeTyped
import TomlVerif.Model.Ser
/-! C07, reading back: a Rust VALUE of a type of the grammar `Ty` (Model/DeTyped.lean), seen from the serializer side.

  * `WfTy ty`       — the type is one Rust can declare: field names of a struct pairwise distinct, variant names of an
                      enum pairwise distinct (at every depth).
  * `WellTyped ty d` — `d : Dec` is a value of type `ty` (decidable, `Bool`).
  * `serOf nm ty d`  — TRUSTED description, the mirror image of the description of serde in Model/DeTyped.lean: the serde
                      calls the `Serialize` impl of a value `d : ty` makes (serde 1.0.219 `ser/impls.rs`, serde_derive
                      `ser.rs`, `toml_datetime` `impl Serialize for Datetime / Date / Time`, `toml` `impl Serialize for
                      Value`):
        bool → `serialize_bool`; `i8 … u64` → `serialize_i8 … serialize_u64` (`widthOf`); `f32` / `f64`; `char` →
        `serialize_char`; `String` → `serialize_str`; `()` → `serialize_unit`; `Option`: `serialize_none` /
        `serialize_some(v)`; `Vec` → `serialize_seq`; tuple → `serialize_tuple`; `BTreeMap<String, T>` →
        `serialize_map` with `serialize_str` keys in key order; `struct N(T)` → `serialize_newtype_struct(N, v)`;
        derived struct → `serialize_struct(N, len)` + one `serialize_field(name, v)` per field in declaration order (a
        `None` field is handed over as `serialize_none`; there is no `skip_serializing_if` in the grammar); derived enum →
        `serialize_unit_variant / newtype_variant / tuple_variant / struct_variant(E, idx, VARIANT, …)`;
        `Datetime` / `Date` / `Time` → `serialize_struct(NAME, 1)` with the one field `FIELD` holding the printed text;
        `toml::Value` → `DeRoutes.serCalls` (the three passes over a table), read as serde calls (`svalOfSer`).
      `nm` is the Rust name of every struct / enum (the serializers look at a name only to compare it with `NAME`).
  * `normDec cf ty d` — what comes back: `d` up to the identifications the TOML data model forces (each justified by a
                      counterexample theorem in Props/C07RoundTrip.lean). `cf` says what the transport does to a double:
                      `id` for a document TREE, `canonFloat` for a TEXT (a text says `nan` / `-nan` only). -/
namespace TomlVerif.Model.SerTyped
open TomlVerif TomlVerif.Model TomlVerif.Model.TomlValue TomlVerif.Model.DeRoutes TomlVerif.Model.DeTyped
open TomlVerif.Spec TomlVerif.Spec.Serde
open TomlVerif.Model.Datetime (Datetime)

/-! ## helpers -/

/-- `Iterator::map(f).collect::<Option<Vec<_>>>()` -/
def mapO {α β} (f : α → Option β) : List α → Option (List β)
  | [] => some []
  | a :: r =>
    match f a, mapO f r with
    | some b, some l => some (b :: l)
    | _, _ => none

def u64Max : Int := 18446744073709551615

/-- the `serialize_{i,u}N` method of the integer type with this range (`Ty.int` carries the range only; `u64` is the
range `0 ..= i64::MAX` there, see Model/DeTyped.lean; `usize` / `isize` go through `serialize_u64` / `serialize_i64`) -/
def widthOf (lo hi : Int) : IntW :=
  if lo == 0 && hi == i64Max then .u64
  else if lo == -128 && hi == 127 then .i8
  else if lo == -32768 && hi == 32767 then .i16
  else if lo == -2147483648 && hi == 2147483647 then .i32
  else if lo == 0 && hi == 255 then .u8
  else if lo == 0 && hi == 65535 then .u16
  else if lo == 0 && hi == 4294967295 then .u32
  else .i64

/-- the scalar value of a one-`char` UTF-8 string -/
def decodeChar : Bytes → Option Nat
  | [b0] => some b0.toNat
  | [b0, b1] => some ((b0.toNat - 0xC0) * 64 + (b1.toNat - 0x80))
  | [b0, b1, b2] => some ((b0.toNat - 0xE0) * 4096 + (b1.toNat - 0x80) * 64 + (b2.toNat - 0x80))
  | [b0, b1, b2, b3] =>
    some ((b0.toNat - 0xF0) * 262144 + (b1.toNat - 0x80) * 4096 + (b2.toNat - 0x80) * 64 + (b3.toNat - 0x80))
  | _ => none

/-- `s` is the UTF-8 form of one `char` -/
def isChar (s : Bytes) : Bool :=
  match decodeChar s with
  | some cp => Utf8.isScalar cp && Utf8.encode cp == s && charCount s == 1
  | none => false

/-- a `Datetime` the crate prints and re-reads as itself (`Props.C12.T12_roundtrip`: every date-time whose fields are
in range and whose year is ≤ 9999) -/
def dtOk (d : Datetime) : Bool := Datetime.Std.fromStr (Datetime.Std.display d) == some d

mutual
/-- the calls of `impl Serialize for toml::Value` (`DeRoutes.Ser`) as general serde calls -/
def svalOfSer : Ser → SVal
  | .bool b => .bool b
  | .i64 n => .int .i64 n
  | .f64 b => .f64 b
  | .str s => .str s
  | .seq l => .seq (svalOfSerList l)
  | .map es => .map (svalOfSerMap es)
  | .struct name fs => .struct name (svalOfSerFields fs)
def svalOfSerList : List Ser → List SVal
  | [] => []
  | s :: r => svalOfSer s :: svalOfSerList r
def svalOfSerMap : List (Bytes × Ser) → List (SVal × SVal)
  | [] => []
  | (k, s) :: r => (.str k, svalOfSer s) :: svalOfSerMap r
def svalOfSerFields : List (Bytes × Ser) → List (Bytes × SVal)
  | [] => []
  | (k, s) :: r => (k, svalOfSer s) :: svalOfSerFields r
end

/-! ## types Rust can declare -/

def Fields.names : Fields → List Bytes
  | .nil => []
  | .cons n _ _ r => n :: Fields.names r

def Variants.names : Variants → List Bytes
  | .nil => []
  | .cons n _ r => n :: Variants.names r

/-- pairwise distinct -/
def distinct : List Bytes → Bool
  | [] => true
  | k :: r => !r.contains k && distinct r

mutual
def WfTy : Ty → Bool
  | .option t => WfTy t
  | .seq t => WfTy t
  | .tuple ts => WfTys ts
  | .map t => WfTy t
  | .newtype t => WfTy t
  | .struct fs => distinct (Fields.names fs) && WfFields fs
  | .enum vs => distinct (Variants.names vs) && WfVariants vs
  | _ => true
def WfTys : Tys → Bool
  | .nil => true
  | .cons t r => WfTy t && WfTys r
def WfFields : Fields → Bool
  | .nil => true
  | .cons _ t _ r => WfTy t && WfFields r
def WfShape : Shape → Bool
  | .unit => true
  | .newtype t => WfTy t
  | .tuple ts => WfTys ts
  | .struct fs => distinct (Fields.names fs) && WfFields fs
def WfVariants : Variants → Bool
  | .nil => true
  | .cons _ s r => WfShape s && WfVariants r
end

mutual
/-- does `toml::Value` occur in the type -/
def hasValue : Ty → Bool
  | .value => true
  | .option t => hasValue t
  | .seq t => hasValue t
  | .tuple ts => hasValueTys ts
  | .map t => hasValue t
  | .newtype t => hasValue t
  | .struct fs => hasValueFields fs
  | .enum vs => hasValueVariants vs
  | _ => false
def hasValueTys : Tys → Bool
  | .nil => false
  | .cons t r => hasValue t || hasValueTys r
def hasValueFields : Fields → Bool
  | .nil => false
  | .cons _ t _ r => hasValue t || hasValueFields r
def hasValueShape : Shape → Bool
  | .unit => false
  | .newtype t => hasValue t
  | .tuple ts => hasValueTys ts
  | .struct fs => hasValueFields fs
def hasValueVariants : Variants → Bool
  | .nil => false
  | .cons _ s r => hasValueShape s || hasValueVariants r
end

/-! ## values of a type -/

/-- keys strictly ascending (`BTreeMap` iteration order) -/
def ascending : List Bytes → Bool
  | [] => true
  | [_] => true
  | a :: b :: r => bytesLt a b && ascending (b :: r)

mutual
/-- a `toml::Value` (default build: `BTreeMap`) the round trip is stated for: keys ascending, none of them the private
date-time key (F24), date-times that print and re-read -/
def valueOk : TV → Bool
  | .dt d => dtOk d
  | .arr l => valueOkList l
  | .tbl es => ascending (es.map Prod.fst) && !(es.map Prod.fst).contains FIELD && valueOkPairs es
  | _ => true
def valueOkList : List TV → Bool
  | [] => true
  | v :: r => valueOk v && valueOkList r
def valueOkPairs : List (Bytes × TV) → Bool
  | [] => true
  | (_, v) :: r => valueOk v && valueOkPairs r
end

mutual
/-- `d` is a value of the Rust type `ty` -/
def WellTyped : Ty → Dec → Bool
  | .bool, .bool _ => true
  -- `u64`: all of `0 ..= u64::MAX` (the range of `Ty.int` stops at `i64::MAX`, what the deserializers can deliver)
  | .int lo hi, .int n => decide (lo ≤ n) && (decide (n ≤ hi) || (widthOf lo hi == .u64 && decide (n ≤ u64Max)))
  | .f64, .f64 b => decide (b < 2 ^ 64)
  | .f32, .f32 b => decide (b < 2 ^ 32)
  | .string, .str _ => true
  | .char, .char s => isChar s
  | .unit, .unit => true
  | .datetime, .dt d => dtOk d
  | .date, .dt d => dtOk d && d.date.isSome && d.time.isNone && d.offset.isNone
  | .time, .dt d => dtOk d && d.date.isNone && d.time.isSome && d.offset.isNone
  | .value, .value v => valueOk v
  | .option _, .none => true
  | .option t, .some d => WellTyped t d
  | .seq t, .seq l => l.all (WellTyped t)
  | .tuple ts, .tuple l => WellTypedTys ts l
  | .map t, .map l => ascending (l.map Prod.fst) && l.all fun kd => WellTyped t kd.2
  | .newtype t, .newtype d => WellTyped t d
  | .struct fs, .struct l => WellTypedFields fs l
  | .enum vs, d => WellTypedVariants vs d
  | _, _ => false
def WellTypedTys : Tys → List Dec → Bool
  | .nil, [] => true
  | .cons t r, d :: l => WellTyped t d && WellTypedTys r l
  | _, _ => false
def WellTypedFields : Fields → List (Bytes × Dec) → Bool
  | .nil, [] => true
  | .cons name t _ r, (k, d) :: l => k == name && WellTyped t d && WellTypedFields r l
  | _, _ => false
def WellTypedShape : Shape → Dec → Bool
  | .unit, .vUnit _ => true
  | .newtype t, .vNewtype _ d => WellTyped t d
  | .tuple ts, .vTuple _ l => WellTypedTys ts l
  | .struct fs, .vStruct _ l => WellTypedFields fs l
  | _, _ => false
/-- the variant the value names, with a payload of that variant's shape -/
def WellTypedVariants : Variants → Dec → Bool
  | .nil, _ => false
  | .cons name s r, d =>
    match d with
    | .vUnit n => if name == n then WellTypedShape s d else WellTypedVariants r d
    | .vNewtype n _ => if name == n then WellTypedShape s d else WellTypedVariants r d
    | .vTuple n _ => if name == n then WellTypedShape s d else WellTypedVariants r d
    | .vStruct n _ => if name == n then WellTypedShape s d else WellTypedVariants r d
    | _ => false
end

/-! ## the serde calls of `Serialize` -/

mutual
def serOf (nm : Bytes) : Ty → Dec → Option SVal
  | .bool, .bool b => some (.bool b)
  | .int lo hi, .int n => some (.int (widthOf lo hi) n)
  | .f64, .f64 b => some (.f64 b)
  | .f32, .f32 b => some (.f32 b)
  | .string, .str s => some (.str s)
  | .char, .char s => (decodeChar s).map .char
  | .unit, .unit => some .unit
  -- `impl Serialize for Datetime`: `serialize_struct(NAME, 1)`, `serialize_field(FIELD, &self.to_string())`;
  -- `Date` / `Time`: `Datetime::from(*self).serialize(serializer)`
  | .datetime, .dt d => some (.struct dtName [(dtField, .str (Datetime.Std.display d))])
  | .date, .dt d => some (.struct dtName [(dtField, .str (Datetime.Std.display d))])
  | .time, .dt d => some (.struct dtName [(dtField, .str (Datetime.Std.display d))])
  | .value, .value v => some (svalOfSer (serCalls v))
  | .option _, .none => some .none
  | .option t, .some d => (serOf nm t d).map .some
  | .seq t, .seq l => (mapO (serOf nm t) l).map .seq
  | .tuple ts, .tuple l => (serOfTys nm ts l).map .tuple
  | .map t, .map l => (mapO (fun kd : Bytes × Dec => (serOf nm t kd.2).map fun v => (SVal.str kd.1, v)) l).map .map
  | .newtype t, .newtype d => (serOf nm t d).map (.newtype nm)
  | .struct fs, .struct l => (serOfFields nm fs l).map (.struct nm)
  | .enum vs, d => serOfVariants nm vs d
  | _, _ => none
def serOfTys (nm : Bytes) : Tys → List Dec → Option (List SVal)
  | .nil, [] => some []
  | .cons t r, d :: l =>
    match serOf nm t d, serOfTys nm r l with
    | some v, some vs => some (v :: vs)
    | _, _ => none
  | _, _ => none
/-- one `serialize_field` per field, in declaration order -/
def serOfFields (nm : Bytes) : Fields → List (Bytes × Dec) → Option (List (Bytes × SVal))
  | .nil, [] => some []
  | .cons name t _ r, (_, d) :: l =>
    match serOf nm t d, serOfFields nm r l with
    | some v, some vs => some ((name, v) :: vs)
    | _, _ => none
  | _, _ => none
def serOfShape (nm : Bytes) : Shape → Bytes → Dec → Option SVal
  | .unit, n, .vUnit _ => some (.unitVariant nm n)
  | .newtype t, n, .vNewtype _ d => (serOf nm t d).map (.newtypeVariant nm n)
  | .tuple ts, n, .vTuple _ l => (serOfTys nm ts l).map (.tupleVariant nm n)
  | .struct fs, n, .vStruct _ l => (serOfFields nm fs l).map (.structVariant nm n)
  | _, _, _ => none
def serOfVariants (nm : Bytes) : Variants → Dec → Option SVal
  | .nil, _ => none
  | .cons name s r, d =>
    match d with
    | .vUnit n => if name == n then serOfShape nm s name d else serOfVariants nm r d
    | .vNewtype n _ => if name == n then serOfShape nm s name d else serOfVariants nm r d
    | .vTuple n _ => if name == n then serOfShape nm s name d else serOfVariants nm r d
    | .vStruct n _ => if name == n then serOfShape nm s name d else serOfVariants nm r d
    | _ => none
end

/-! ## what comes back -/

/-- entries of a map whose value is `None` -/
def isNoneDec : Dec → Bool
  | .none => true
  | _ => false

mutual
/-- the value up to the identifications of the TOML data model:
  * a double loses the sign of a NaN (`toml_edit::ser`: `copysign(1.0)`) and, through a text, its payload (`cf`);
  * an `f32` travels as a double and comes back through `as f32`, which keeps only the sign of a NaN;
  * a map entry whose value is `None` is gone;
  * a `None` in a `#[serde(default)]` field comes back as `Default::default()` (`Dec.dflt`, which IS `None`). -/
def normDec (cf : Nat → Nat) : Ty → Dec → Dec
  | .f64, .f64 b => .f64 (cf (clearNanSign b))
  | .f32, .f32 b => .f32 (f64ToF32 (cf (clearNanSign (f32to64 b))))
  | .option t, .some d => .some (normDec cf t d)
  | .seq t, .seq l => .seq (l.map (normDec cf t))
  | .tuple ts, .tuple l => .tuple (normTys cf ts l)
  | .map t, .map l =>
    .map ((l.filter fun kd => !isNoneDec kd.2).map fun kd : Bytes × Dec => (kd.1, normDec cf t kd.2))
  | .newtype t, .newtype d => .newtype (normDec cf t d)
  | .struct fs, .struct l => .struct (normFields cf fs l)
  | .enum vs, d => normVariants cf vs d
  | _, d => d
def normTys (cf : Nat → Nat) : Tys → List Dec → List Dec
  | .cons t r, d :: l => normDec cf t d :: normTys cf r l
  | _, _ => []
def normFields (cf : Nat → Nat) : Fields → List (Bytes × Dec) → List (Bytes × Dec)
  | .cons name t dflt r, (_, d) :: l =>
    (name, if dflt && isNoneDec d then .dflt else normDec cf t d) :: normFields cf r l
  | _, _ => []
def normShape (cf : Nat → Nat) : Shape → Dec → Dec
  | .newtype t, .vNewtype n d => .vNewtype n (normDec cf t d)
  | .tuple ts, .vTuple n l => .vTuple n (normTys cf ts l)
  | .struct fs, .vStruct n l => .vStruct n (normFields cf fs l)
  | _, d => d
def normVariants (cf : Nat → Nat) : Variants → Dec → Dec
  | .nil, d => d
  | .cons name s r, d =>
    match d with
    | .vUnit n => if name == n then normShape cf s d else normVariants cf r d
    | .vNewtype n _ => if name == n then normShape cf s d else normVariants cf r d
    | .vTuple n _ => if name == n then normShape cf s d else normVariants cf r d
    | .vStruct n _ => if name == n then normShape cf s d else normVariants cf r d
    | _ => d
end

end TomlVerif.Model.SerTyped
