import TomlVerif.Spec.Classes
/-! Models of the two date-time parsers and of the printer.
    * `Doc.*`  — `crates/toml_edit/src/parser/datetime.rs` (winnow combinators, `Res`)
    * `Std.*`  — `crates/toml_datetime/src/datetime.rs` `FromStr` and `Display`
    Both read the text as bytes; "read exactly two/four ASCII digits" is the shared primitive
    (`unsigned_digits::<N,N>` + `parse` on one side, N calls of `digit()` on the other). -/
namespace TomlVerif.Model.Datetime
open TomlVerif TomlVerif.Spec

structure Date where
  year : Nat
  month : Nat
  day : Nat
  deriving Repr, DecidableEq

structure Time where
  hour : Nat
  minute : Nat
  second : Nat
  nanosecond : Nat
  deriving Repr, DecidableEq

inductive Offset where
  | z
  | custom (minutes : Int)
  deriving Repr, DecidableEq

structure Datetime where
  date : Option Date
  time : Option Time
  offset : Option Offset
  deriving Repr, DecidableEq

def dval (b : Byte) : Nat := b.toNat - 0x30

/-- exactly two ASCII digits → their value -/
def digits2 : Bytes → Option (Nat × Bytes)
  | a :: b :: r => if isDigit a && isDigit b then some (dval a * 10 + dval b, r) else none
  | _ => none

/-- exactly four ASCII digits → their value -/
def digits4 : Bytes → Option (Nat × Bytes)
  | a :: b :: c :: d :: r =>
    if isDigit a && isDigit b && isDigit c && isDigit d then
      some (dval a * 1000 + dval b * 100 + dval c * 10 + dval d, r) else none
  | _ => none

def isLeap (y : Nat) : Bool := y % 4 == 0 && (y % 100 != 0 || y % 400 == 0)

def maxDays (y m : Nat) : Nat :=
  if m == 2 then (if isLeap y then 29 else 28)
  else if m == 4 || m == 6 || m == 9 || m == 11 then 30
  else 31

/-- the maximal run of digits at the head -/
def takeDigits : Bytes → Bytes × Bytes
  | [] => ([], [])
  | b :: r => if isDigit b then let (a, t) := takeDigits r; (b :: a, t) else ([], b :: r)

def natOfDigits (ds : Bytes) : Nat := ds.foldl (fun acc b => acc * 10 + dval b) 0

namespace Doc

/-- `full_date_` -/
def fullDate (s : Bytes) : Res Date :=
  match digits4 s with
  | none => .bt
  | some (year, r) =>
    match r with
    | 0x2D :: r =>
      match digits2 r with
      | none => .cut
      | some (month, r) =>
        if !(1 ≤ month && month ≤ 12) then .cut else
        match r with
        | 0x2D :: r =>
          match digits2 r with
          | none => .cut
          | some (day, r) =>
            if !(1 ≤ day && day ≤ 31) then .cut
            else if maxDays year month < day then .cut
            else .ok ⟨year, month, day⟩ r
        | _ => .cut
    | _ => .bt

/-- `SCALE` -/
def scale (n : Nat) : Nat := if n == 0 then 0 else 10 ^ (9 - n)

/-- `opt(time_secfrac)`: `.` 1*DIGIT, truncated to nine digits and scaled -/
def secfracOpt (s : Bytes) : Nat × Bytes :=
  match s with
  | 0x2E :: r =>
    match takeDigits r with
    | ([], _) => (0, s)
    | (ds, t) =>
      let ds9 := ds.take 9
      (natOfDigits ds9 * scale ds9.length, t)
  | _ => (0, s)

/-- `partial_time` -/
def partialTime (s : Bytes) : Res Time :=
  match digits2 s with
  | none => .bt
  | some (hour, r) =>
    if !(hour ≤ 23) then .bt else
    match r with
    | 0x3A :: r =>
      match digits2 r with
      | none => .cut
      | some (minute, r) =>
        if !(minute ≤ 59) then .cut else
        match r with
        | 0x3A :: r =>
          match digits2 r with
          | none => .cut
          | some (second, r) =>
            if !(second ≤ 60) then .cut else
            let (ns, r) := secfracOpt r
            .ok ⟨hour, minute, second, ns⟩ r
        | _ => .cut
    | _ => .bt

/-- `time_offset` -/
def timeOffset (s : Bytes) : Res Offset :=
  match s with
  | [] => .bt
  | c :: r =>
    if c == 0x5A || c == 0x7A then .ok .z r
    else if c == 0x2B || c == 0x2D then
      match digits2 r with
      | none => .cut
      | some (h, r) =>
        if !(h ≤ 23) then .cut else
        match r with
        | 0x3A :: r =>
          match digits2 r with
          | none => .cut
          | some (m, r) =>
            if !(m ≤ 59) then .cut else
            let total : Int := (if c == 0x2B then 1 else -1) * ((h : Int) * 60 + (m : Int))
            if -(24 * 60) ≤ total && total ≤ 24 * 60 then .ok (.custom total) r else .bt
        | _ => .cut
    else .bt

def isTimeDelim (b : Byte) : Bool := b == 0x54 || b == 0x74 || b == 0x20

/-- `date_time` -/
def dateTime (s : Bytes) : Res Datetime :=
  match fullDate s with
  | .ok d r =>
    -- opt((time_delim, partial_time, opt(time_offset)))
    match r with
    | c :: r' =>
      if isTimeDelim c then
        match partialTime r' with
        | .ok t r'' =>
          match timeOffset r'' with
          | .ok o r3 => .ok ⟨some d, some t, some o⟩ r3
          | .bt => .ok ⟨some d, some t, none⟩ r''
          | .cut => .cut
        | .bt => .ok ⟨some d, none, none⟩ r
        | .cut => .cut
      else .ok ⟨some d, none, none⟩ r
    | [] => .ok ⟨some d, none, none⟩ r
  | .cut => .cut
  | .bt =>
    match partialTime s with
    | .ok t r => .ok ⟨none, some t, none⟩ r
    | .bt => .bt
    | .cut => .cut

/-- the whole string is one date-time value -/
def parseAll (s : Bytes) : Option Datetime :=
  match dateTime s with
  | .ok d [] => some d
  | _ => none

end Doc

namespace Std

/-- the fraction loop of `FromStr`: value of the first nine digits scaled to nanoseconds -/
def fracLoop : Bytes → Nat → Nat → Nat × Nat
  | [], i, acc => (acc, i)
  | b :: r, i, acc =>
    if isDigit b then fracLoop r (i + 1) (if i < 9 then acc + 10 ^ (8 - i) * dval b else acc)
    else (acc, i)

def parseTime (s : Bytes) : Option (Time × Bytes) :=
  match digits2 s with
  | none => none
  | some (h, r) =>
    match r with
    | 0x3A :: r =>
      match digits2 r with
      | none => none
      | some (m, r) =>
        match r with
        | 0x3A :: r =>
          match digits2 r with
          | none => none
          | some (sec, r) =>
            let fr : Option (Nat × Bytes) :=
              match r with
              | 0x2E :: w =>
                let (ns, e) := fracLoop w 0 0
                if e == 0 then none else some (ns, w.drop e)
              | _ => some (0, r)
            match fr with
            | none => none
            | some (ns, r) =>
              if h > 23 then none
              else if m > 59 then none
              else if sec > 60 then none
              else if ns > 999999999 then none
              else some (⟨h, m, sec, ns⟩, r)
        | _ => none
    | _ => none

def parseDate (s : Bytes) : Option (Date × Bytes) :=
  match digits4 s with
  | none => none
  | some (y, r) =>
    match r with
    | 0x2D :: r =>
      match digits2 r with
      | none => none
      | some (m, r) =>
        match r with
        | 0x2D :: r =>
          match digits2 r with
          | none => none
          | some (d, r) =>
            if m < 1 || m > 12 then none
            else if d < 1 || d > maxDays y m then none
            else some (⟨y, m, d⟩, r)
        | _ => none
    | _ => none

def parseOffset (s : Bytes) : Option (Option Offset × Bytes) :=
  match s with
  | [] => some (none, [])
  | c :: r =>
    if c == 0x5A || c == 0x7A then some (some .z, r)
    else if c == 0x2B || c == 0x2D then
      match digits2 r with
      | none => none
      | some (h, r) =>
        match r with
        | 0x3A :: r =>
          match digits2 r with
          | none => none
          | some (m, r) =>
            if h > 23 || m > 59 then none else
            let total : Int := (if c == 0x2B then 1 else -1) * ((h : Int) * 60 + (m : Int))
            if -(24 * 60) ≤ total && total ≤ 24 * 60 then some (some (.custom total), r) else none
        | _ => none
    else none

/-- `impl FromStr for Datetime` -/
def fromStr (s : Bytes) : Option Datetime :=
  if s.length < 3 then none
  else if s[2]? == some 0x3A then
    -- time only; no offset allowed
    match parseTime s with
    | some (t, []) => some ⟨none, some t, none⟩
    | _ => none
  else
    match parseDate s with
    | none => none
    | some (d, r) =>
      match r with
      | [] => some ⟨some d, none, none⟩
      | c :: r' =>
        if c == 0x54 || c == 0x74 || c == 0x20 then
          match parseTime r' with
          | none => none
          | some (t, r'') =>
            match parseOffset r'' with
            | some (o, []) => some ⟨some d, some t, o⟩
            | _ => none
        else none

def pad (w n : Nat) : Bytes :=
  let ds := (Nat.toDigits 10 n).map (fun c => UInt8.ofNat c.toNat)
  List.replicate (w - ds.length) 0x30 ++ ds

def trimZeros (ds : Bytes) : Bytes := (ds.reverse.dropWhile (· == 0x30)).reverse

def displayDate (d : Date) : Bytes := pad 4 d.year ++ [0x2D] ++ pad 2 d.month ++ [0x2D] ++ pad 2 d.day
def displayTime (t : Time) : Bytes :=
  pad 2 t.hour ++ [0x3A] ++ pad 2 t.minute ++ [0x3A] ++ pad 2 t.second ++
    (if t.nanosecond != 0 then 0x2E :: trimZeros (pad 9 t.nanosecond) else [])
def displayOffset : Offset → Bytes
  | .z => [0x5A]
  | .custom m =>
    let (sign, a) : Byte × Nat := if m < 0 then (0x2D, (-m).toNat) else (0x2B, m.toNat)
    sign :: (pad 2 (a / 60) ++ [0x3A] ++ pad 2 (a % 60))

/-- `impl Display for Datetime` -/
def display (dt : Datetime) : Bytes :=
  (match dt.date with | some d => displayDate d | none => []) ++
  (match dt.time with
   | some t => (if dt.date.isSome then [0x54] else []) ++ displayTime t
   | none => []) ++
  (match dt.offset with | some o => displayOffset o | none => [])

end Std

end TomlVerif.Model.Datetime
