import TomlVerif.Model.Tree
import TomlVerif.Model.Numbers
import TomlVerif.Model.MacroArms
/-! Model of `crates/toml/src/macros.rs`: the `toml!` macro, the hidden tt-muncher
    `toml_internal!` (arms tried in SOURCE ORDER, first match wins) and the helper functions
    `insert_toml`, `push_toml`, `traverse`.

    * `lex`, `parseTTs` — rustc's lexer and token-tree builder for the token subset the check
      generates. They are MODELLED EXTERNAL code (rustc, not /repo) and deliberately small: a text
      outside the subset yields `none` (printed `unsupported`), never a guess.
    * `Tok`/`TT` — tokens and token trees; `$x:tt` matches exactly one `TT`.
    * `MVal` — `toml::Value`; a table is an association list in insertion order (`toml::Table`
      is a `BTreeMap`; every comparison with the implementation sorts by key).
    * `R` — outcome: a value, `unsupported` (the expansion does not compile: no arm matches, a
      literal is out of range, `concat!` rejects a token), or `panic` (an `unwrap` of the
      expansion fails at run time). -/
namespace TomlVerif.Model.Macro
open TomlVerif TomlVerif.Spec TomlVerif.Model

/-! ## tokens -/

inductive Delim where
  | paren | bracket | brace
  deriving Repr, DecidableEq

inductive Tok where
  /-- identifier or keyword (`$x:ident` matches it); a lone `_` is NOT an identifier -/
  | ident (s : Bytes)
  /-- integer / float literal: text without suffix, suffix, lexed-as-float flag. `27T07` is the
      integer `27` with suffix `T07`; `00.5Z` the float `00.5` with suffix `Z` -/
  | num (body suffix : Bytes) (isFloat : Bool)
  /-- string literal: source text (with quotes) and value -/
  | str (raw val : Bytes)
  /-- character literal: source text (with quotes) and value (UTF-8) -/
  | chr (raw val : Bytes)
  | punct (c : Byte)
  deriving Repr, DecidableEq

/-- flat lexer output -/
inductive FTok where
  | t (t : Tok)
  | opn (d : Delim)
  | cls (d : Delim)
  deriving Repr, DecidableEq

inductive TT where
  | tok (t : Tok)
  | group (d : Delim) (ts : List TT)
  deriving Repr

/-! ## the lexer (model of rustc_lexer for the subset) -/

def isIdStart (b : Byte) : Bool := inR 0x41 0x5A b || inR 0x61 0x7A b || b == 0x5F
def isIdCont (b : Byte) : Bool := isIdStart b || isDigit b
def isWs (b : Byte) : Bool := b == 0x20 || b == 0x09 || b == 0x0A || b == 0x0D
def isDigU (b : Byte) : Bool := isDigit b || b == 0x5F
def isHexU (b : Byte) : Bool := isHexdig b || b == 0x5F

def spanP (p : Byte → Bool) : Bytes → Bytes × Bytes
  | [] => ([], [])
  | b :: r => if p b then let (a, t) := spanP p r; (b :: a, t) else ([], b :: r)

/-- number literal starting at a digit: (body, suffix, isFloat, rest) -/
def lexNumber (s : Bytes) : Option (Bytes × Bytes × Bool × Bytes) :=
  let suffixOf (r : Bytes) : Bytes × Bytes :=
    match r with
    | c :: _ => if isIdStart c then spanP isIdCont r else ([], r)
    | [] => ([], r)
  match s with
  | 0x30 :: c :: r =>
    if c == 0x78 || c == 0x6F || c == 0x62 then
      -- 0x / 0o / 0b: digits of the base and underscores, then a suffix
      let (ds, r1) := if c == 0x78 then spanP isHexU r else spanP isDigU r
      if ds.all (· == 0x5F) then none else
      let (sf, r2) := suffixOf r1
      some (0x30 :: c :: ds, sf, false, r2)
    else lexDecimal s suffixOf
  | _ => lexDecimal s suffixOf
where
  lexDecimal (s : Bytes) (suffixOf : Bytes → Bytes × Bytes) : Option (Bytes × Bytes × Bool × Bytes) :=
    let (ip, r) := spanP isDigU s
    let expOf (r : Bytes) : Option (Bytes × Bytes) :=
      -- r starts after the `e`/`E`
      let (sg, r1) : Bytes × Bytes := match r with
        | 0x2B :: t => ([0x2B], t)
        | 0x2D :: t => ([0x2D], t)
        | _ => ([], r)
      let (ds, r2) := spanP isDigU r1
      if ds.any isDigit then some (sg ++ ds, r2) else none
    match r with
    | 0x2E :: r1 =>
      let floatAfterDot : Bool := match r1 with
        | c :: _ => !(c == 0x2E) && !(isIdStart c) && !(0x80 ≤ c)
        | [] => true
      if floatAfterDot then
        let (fp, r2) := spanP isDigU r1
        match r2 with
        | e :: r3 =>
          if (e == 0x65 || e == 0x45) && !fp.isEmpty then
            match expOf r3 with
            | some (ex, r4) => let (sf, r5) := suffixOf r4; some (ip ++ [0x2E] ++ fp ++ [e] ++ ex, sf, true, r5)
            | none => none
          else let (sf, r5) := suffixOf r2; some (ip ++ [0x2E] ++ fp, sf, true, r5)
        | [] => some (ip ++ [0x2E] ++ fp, [], true, [])
      else some (ip, [], false, r)
    | e :: r3 =>
      if e == 0x65 || e == 0x45 then
        match expOf r3 with
        | some (ex, r4) => let (sf, r5) := suffixOf r4; some (ip ++ [e] ++ ex, sf, true, r5)
        | none => none
      else let (sf, r5) := suffixOf r; some (ip, sf, false, r5)
    | [] => some (ip, [], false, [])

/-- body of a string literal after the opening quote: (raw body, value, rest after the closing quote).
    Only the escapes `\n \r \t \\ \0 \' \"` are in the subset. -/
def lexStrBody : Bytes → Bytes → Bytes → Option (Bytes × Bytes × Bytes)
  | [], _, _ => none
  | 0x22 :: r, raw, val => some (raw, val, r)
  | 0x5C :: c :: r, raw, val =>
    let v : Option Byte :=
      if c == 0x6E then some 0x0A else if c == 0x72 then some 0x0D else if c == 0x74 then some 0x09
      else if c == 0x5C then some 0x5C else if c == 0x30 then some 0x00 else if c == 0x27 then some 0x27
      else if c == 0x22 then some 0x22 else none
    match v with
    | some b => lexStrBody r (raw ++ [0x5C, c]) (val ++ [b])
    | none => none
  | [0x5C], _, _ => none
  | b :: r, raw, val => if b == 0x0D then none else lexStrBody r (raw ++ [b]) (val ++ [b])

/-- length of the UTF-8 sequence a lead byte announces -/
def utf8Len (b : Byte) : Nat :=
  if b < 0x80 then 1 else if b < 0xC0 then 0 else if b < 0xE0 then 2 else if b < 0xF0 then 3 else if b < 0xF8 then 4 else 0

/-- character literal after the opening `'` -/
def lexChar (s : Bytes) : Option (Tok × Bytes) :=
  match s with
  | 0x5C :: c :: 0x27 :: r =>
    let v : Option Byte :=
      if c == 0x6E then some 0x0A else if c == 0x72 then some 0x0D else if c == 0x74 then some 0x09
      else if c == 0x5C then some 0x5C else if c == 0x30 then some 0x00 else if c == 0x27 then some 0x27
      else if c == 0x22 then some 0x22 else none
    v.map fun b => (Tok.chr [0x27, 0x5C, c, 0x27] [b], r)
  | b :: r =>
    if b == 0x27 || b == 0x5C || b == 0x0A || b == 0x0D || b == 0x09 then none else
    let n := utf8Len b
    if n == 0 then none else
    let ch := (b :: r).take n
    match (b :: r).drop n with
    | 0x27 :: r' => if ch.length == n then some (Tok.chr ([0x27] ++ ch ++ [0x27]) ch, r') else none
    | _ => none
  | [] => none

def delimOpen (b : Byte) : Option Delim :=
  if b == 0x28 then some .paren else if b == 0x5B then some .bracket else if b == 0x7B then some .brace else none
def delimClose (b : Byte) : Option Delim :=
  if b == 0x29 then some .paren else if b == 0x5D then some .bracket else if b == 0x7D then some .brace else none

/-- single-character punctuation of the subset: `, . = - + :` -/
def isPunct (b : Byte) : Bool :=
  b == 0x2C || b == 0x2E || b == 0x3D || b == 0x2D || b == 0x2B || b == 0x3A

/-- two adjacent characters that rustc's parser glues into ONE token tree (`::`, `-=`, `->`, `==`, `=>`, `+=`, `..`) -/
def glues (a b : Byte) : Bool :=
  (a == 0x3A && b == 0x3A) || (a == 0x2D && (b == 0x3D || b == 0x3E)) || (a == 0x3D && (b == 0x3D || b == 0x3E)) ||
  (a == 0x2B && b == 0x3D) || (a == 0x2E && b == 0x2E)

def lexAux : Nat → Bytes → List FTok → Option (List FTok)
  | 0, _, _ => none
  | _ + 1, [], acc => some acc.reverse
  | fuel + 1, b :: r, acc =>
    if isWs b then lexAux fuel r acc
    else if isIdStart b then
      let (w, r1) := spanP isIdCont (b :: r)
      -- `ident"…"`, `ident'…'`, `ident#` are reserved prefixes / raw or byte literals
      match r1 with
      | c :: _ => if c == 0x22 || c == 0x27 || c == 0x23 then none
                  else lexAux fuel r1 ((if w == [0x5F] then FTok.t (.punct 0x5F) else FTok.t (.ident w)) :: acc)
      | [] => lexAux fuel r1 ((if w == [0x5F] then FTok.t (.punct 0x5F) else FTok.t (.ident w)) :: acc)
    else if isDigit b then
      match lexNumber (b :: r) with
      | some (body, sf, fl, r1) => lexAux fuel r1 (FTok.t (.num body sf fl) :: acc)
      | none => none
    else if b == 0x22 then
      match lexStrBody r [] [] with
      | some (raw, val, r1) =>
        match r1 with
        | c :: _ => if isIdStart c then none else lexAux fuel r1 (FTok.t (.str ([0x22] ++ raw ++ [0x22]) val) :: acc)
        | [] => lexAux fuel r1 (FTok.t (.str ([0x22] ++ raw ++ [0x22]) val) :: acc)
      | none => none
    else if b == 0x27 then
      match lexChar r with
      | some (t, r1) =>
        match r1 with
        | c :: _ => if isIdStart c then none else lexAux fuel r1 (FTok.t t :: acc)
        | [] => lexAux fuel r1 (FTok.t t :: acc)
      | none => none
    else match delimOpen b with
      | some d => lexAux fuel r (FTok.opn d :: acc)
      | none =>
        match delimClose b with
        | some d => lexAux fuel r (FTok.cls d :: acc)
        | none =>
          if isPunct b then
            match r with
            | c :: _ => if glues b c then none else lexAux fuel r (FTok.t (.punct b) :: acc)
            | [] => lexAux fuel r (FTok.t (.punct b) :: acc)
          else none

def lex (s : Bytes) : Option (List FTok) := lexAux (s.length + 1) s []

/-! ## token trees -/

/-- parse token trees up to the closing delimiter `close` (or the end when `close = none`) -/
def parseSeq : Nat → Option Delim → List FTok → List TT → Option (List TT × List FTok)
  | 0, _, _, _ => none
  | _ + 1, none, [], acc => some (acc.reverse, [])
  | _ + 1, some _, [], _ => none
  | fuel + 1, close, .t t :: r, acc => parseSeq fuel close r (.tok t :: acc)
  | fuel + 1, close, .opn d :: r, acc =>
    match parseSeq fuel (some d) r [] with
    | some (inner, r1) => parseSeq fuel close r1 (.group d inner :: acc)
    | none => none
  | _ + 1, close, .cls d :: r, acc =>
    if close == some d then some (acc.reverse, r) else none

def parseTTs (ts : List FTok) : Option (List TT) :=
  match parseSeq (ts.length + 1) none ts [] with
  | some (tts, []) => some tts
  | _ => none

/-- text → token trees (`none`: outside the modelled subset or not tokenisable) -/
def tokens (s : Bytes) : Option (List TT) :=
  match lex s with
  | some f => parseTTs f
  | none => none

/-! ## values -/

inductive MVal where
  | str (s : Bytes)
  | int (n : Int)
  | float (bits : Nat)
  | bool (b : Bool)
  | dt (d : Datetime.Datetime)
  | arr (items : List MVal)
  | tbl (items : List (Bytes × MVal))
  deriving Repr

inductive R (α : Type) where
  | ok (a : α)
  | unsupported
  | panic
  deriving Repr

def emptyTbl : MVal := .tbl []

/-- `*traverse(root, path) = f(*traverse(root, path))`; `none` = the `unwrap` on `last_mut()` of an empty array panics -/
def modifyAt (cur : MVal) : List Bytes → (MVal → MVal) → Option MVal
  | [], f => some (f cur)
  | key :: rest, f =>
    match cur with
    | .arr items =>
      -- `cur1.as_array_mut().unwrap().last_mut().unwrap()`
      match items.getLast? with
      | none => none
      | some last =>
        -- `if !cur2.is_table() { *cur2 = Table::new() }`
        let its : List (Bytes × MVal) := match last with | .tbl its => its | _ => []
        -- `if !contains_key(key) { insert(key, empty) }` ; step into it
        let child := (alookup key its).getD emptyTbl
        match modifyAt child rest f with
        | some c => some (.arr (items.dropLast ++ [.tbl (aset key c its)]))
        | none => none
    | .tbl its =>
      let child := (alookup key its).getD emptyTbl
      match modifyAt child rest f with
      | some c => some (.tbl (aset key c its))
      | none => none
    | _ =>
      match modifyAt emptyTbl rest f with
      | some c => some (.tbl [(key, c)])
      | none => none

/-- `insert_toml` -/
def insertToml (root : MVal) (path : List Bytes) (v : MVal) : Option MVal :=
  modifyAt root path (fun _ => v)

/-- the helper of the `[table]` header arm. `keep = false`: `insert_toml(root, path, Table::new())` — assigns an
    empty table even when an earlier header such as `[a.b]` already created `a` (defect F8).
    `keep = true`: the proposed repair `table_toml`, which assigns only when the target is not a table. -/
def headerTable (keep : Bool) (root : MVal) (path : List Bytes) : Option MVal :=
  if keep then modifyAt root path (fun t => match t with | .tbl _ => t | _ => emptyTbl)
  else insertToml root path emptyTbl

/-- `push_toml` -/
def pushToml (root : MVal) (path : List Bytes) : Option MVal :=
  modifyAt root path fun t =>
    match t with
    | .arr items => .arr (items ++ [emptyTbl])
    | _ => .arr [emptyTbl]

/-! ## literals -/

def bNan : Bytes := [0x6E, 0x61, 0x6E]
def bInf : Bytes := [0x69, 0x6E, 0x66]
def bTrue : Bytes := [0x74, 0x72, 0x75, 0x65]
def bFalse : Bytes := [0x66, 0x61, 0x6C, 0x73, 0x65]

def stripUs (s : Bytes) : Bytes := s.filter (· != 0x5F)

/-- value of an integer literal's text (any base, underscores dropped); `none` for a digit outside the base -/
def intLitValue (body : Bytes) : Option Nat :=
  match body with
  | 0x30 :: 0x78 :: ds => let d := stripUs ds; if d.all isHexdig then some (Numbers.natOfDigitsBase 16 d) else none
  | 0x30 :: 0x6F :: ds => let d := stripUs ds; if d.all isDigit0_7 then some (Numbers.natOfDigitsBase 8 d) else none
  | 0x30 :: 0x62 :: ds => let d := stripUs ds; if d.all isDigit0_1 then some (Numbers.natOfDigitsBase 2 d) else none
  | ds => let d := stripUs ds; if d.all isDigit && !d.isEmpty then some (Numbers.natOfDigitsBase 10 d) else none

/-- bits of the `f64` a float literal's text denotes (sign clear); `none` when it rounds to infinity
    (`overflowing_literals` is deny-by-default: the program does not compile) -/
def floatLitBits (body : Bytes) : Option Nat :=
  let s := stripUs body
  let (ip, r) := spanP isDigit s
  let (fp, r1) : Bytes × Bytes := match r with
    | 0x2E :: t => spanP isDigit t
    | _ => ([], r)
  let (en, ed) : Bool × Bytes := match r1 with
    | _ :: 0x2D :: t => (true, t)
    | _ :: 0x2B :: t => (false, t)
    | _ :: t => (false, t)
    | [] => (false, [])
  let bits := Numbers.FloatLit.bits ⟨false, ip, fp, en, ed⟩
  if Ieee.isInfBits bits then none else some bits

def i32Max : Nat := 2147483647

/-- `IntoDeserializer::into_deserializer(<literal>)` deserialised as a `Value`; `neg` = the literal is
    written under a unary minus -/
def litValue (neg : Bool) : Tok → R MVal
  | .num body sf fl =>
    if !sf.isEmpty then .unsupported
    else if fl then
      match floatLitBits body with
      | some b => .ok (.float (if neg then b + Ieee.signBit else b))
      | none => .unsupported
    else
      match intLitValue body with
      | some n =>
        -- an unsuffixed integer literal is an `i32` here
        if neg then (if n ≤ i32Max + 1 then .ok (.int (-(n : Int))) else .unsupported)
        else (if n ≤ i32Max then .ok (.int n) else .unsupported)
      | none => .unsupported
  | .str _ v => if neg then .unsupported else .ok (.str v)
  | .chr _ v => if neg then .unsupported else .ok (.str v)
  | .ident s =>
    if neg then .unsupported
    else if s == bTrue then .ok (.bool true) else if s == bFalse then .ok (.bool false) else .unsupported
  | .punct _ => .unsupported

/-! ## keys -/

def isP (c : Byte) : TT → Bool
  | .tok (.punct c') => c == c'
  | _ => false

/-- `toml_internal!(@path $k)` inside `concat!`: an identifier is stringified, anything else is handed to
    `concat!`, which accepts string/char literals (their value), integer literals (their VALUE in
    decimal) and float literals (their text) -/
def pathStr : TT → Option Bytes
  | .tok (.ident s) => some s
  | .tok (.str _ v) => some v
  | .tok (.chr _ v) => some v
  | .tok (.num body sf fl) =>
    if !sf.isEmpty then none
    else if fl then some body
    else (intLitValue body).map Numbers.natDigits
  | _ => none

/-- `&concat!($("-", @path $k,)+)[1..]` -/
def segStr : List TT → Option Bytes
  | [] => none
  | [k] => pathStr k
  | k :: r =>
    match pathStr k, segStr r with
    | some a, some b => some (a ++ [0x2D] ++ b)
    | _, _ => none

def segsStr : List (List TT) → Option (List Bytes)
  | [] => some []
  | s :: r =>
    match segStr s, segsStr r with
    | some a, some b => some (a :: b)
    | _, _ => none

/-- `$($($k:tt)-+).+ =` : the key segments and the tokens after the `=` -/
def keyPath : List TT → List TT → List (List TT) → Option (List (List TT) × List TT)
  | k :: p :: rest, cur, segs =>
    if isP 0x2D p then keyPath (rest) (cur ++ [k]) segs
    else if isP 0x2E p then keyPath rest [] (segs ++ [cur ++ [k]])
    else if isP 0x3D p then some (segs ++ [cur ++ [k]], rest)
    else none
  | _, _, _ => none

/-- `[$($($path:tt)-+).+]` : the whole content of the bracket is a path -/
def headerPath : List TT → List TT → List (List TT) → Option (List (List TT))
  | [k], cur, segs => some (segs ++ [cur ++ [k]])
  | k :: p :: rest, cur, segs =>
    if isP 0x2D p then headerPath rest (cur ++ [k]) segs
    else if isP 0x2E p then headerPath rest [] (segs ++ [cur ++ [k]])
    else none
  | [], _, _ => none

/-! ## date-time arms -/

inductive Pat where
  | any
  | p (c : Byte)
  deriving Repr, DecidableEq

/-- match a pattern of `$x:tt` / literal punctuation against the head of the tokens -/
def matchPat : List Pat → List TT → Option (List TT × List TT)
  | [], ts => some ([], ts)
  | .any :: ps, t :: ts =>
    match matchPat ps ts with
    | some (m, r) => some (t :: m, r)
    | none => none
  | .p c :: ps, t :: ts =>
    if isP c t then
      match matchPat ps ts with
      | some (m, r) => some (t :: m, r)
      | none => none
    else none
  | _ :: _, [] => none

open Pat in
/-- the eleven date-time shapes in SOURCE ORDER (the same order in `@toplevel`, `@table`, `@array`);
    `true` = the "space instead of T" variant, which re-inserts the identifier `T` after `$day` -/
def dtArms : List (List Pat × Bool) := [
  ([any, p 0x2D, any, p 0x2D, any, p 0x3A, any, p 0x3A, any, p 0x2E, any, p 0x2D, any, p 0x3A, any], false),
  ([any, p 0x2D, any, p 0x2D, any, any, p 0x3A, any, p 0x3A, any, p 0x2E, any, p 0x2D, any, p 0x3A, any], true),
  ([any, p 0x2D, any, p 0x2D, any, p 0x3A, any, p 0x3A, any, p 0x2D, any, p 0x3A, any], false),
  ([any, p 0x2D, any, p 0x2D, any, any, p 0x3A, any, p 0x3A, any, p 0x2D, any, p 0x3A, any], true),
  ([any, p 0x2D, any, p 0x2D, any, p 0x3A, any, p 0x3A, any, p 0x2E, any], false),
  ([any, p 0x2D, any, p 0x2D, any, any, p 0x3A, any, p 0x3A, any, p 0x2E, any], true),
  ([any, p 0x2D, any, p 0x2D, any, p 0x3A, any, p 0x3A, any], false),
  ([any, p 0x2D, any, p 0x2D, any, any, p 0x3A, any, p 0x3A, any], true),
  ([any, p 0x2D, any, p 0x2D, any], false),
  ([any, p 0x3A, any, p 0x3A, any, p 0x2E, any], false),
  ([any, p 0x3A, any, p 0x3A, any], false)]

/-- first date-time arm (in order) that matches `pattern ++ sfx`; returns the tokens handed to
    `stringify!` (with `T` inserted for the space variants, the trailing `sfx` dropped) and the rest -/
def firstDt (sfx : List Pat) (ts : List TT) : List (List Pat × Bool) → Option (List TT × List TT)
  | [] => none
  | (pat, space) :: more =>
    match matchPat (pat ++ sfx) ts with
    | some (m, r) =>
      let m := m.take pat.length
      some (if space then m.take 5 ++ [.tok (.ident [0x54])] ++ m.drop 5 else m, r)
    | none => firstDt sfx ts more

/-- `stringify!` of one token tree (groups are outside the subset) -/
def stringifyTT : TT → Option Bytes
  | .tok (.ident s) => some s
  | .tok (.num b s _) => some (b ++ s)
  | .tok (.str raw _) => some raw
  | .tok (.chr raw _) => some raw
  | .tok (.punct c) => some [c]
  | .group _ _ => none

def stringifyAll : List TT → Option Bytes
  | [] => some []
  | t :: r =>
    match stringifyTT t, stringifyAll r with
    | some a, some b => some (a ++ b)
    | _, _ => none

/-- `Value::Datetime(concat!($(stringify!($datetime)),+).parse().unwrap())` -/
def dtValue (ts : List TT) : R MVal :=
  match stringifyAll ts with
  | none => .unsupported
  | some txt =>
    match Datetime.Std.fromStr txt with
    | some d => .ok (.dt d)
    | none => .panic

/-! ## the muncher -/

/-- `@trailingcomma`: append a comma unless the tokens are empty or already end in one -/
def withComma (ts : List TT) : List TT :=
  match ts.getLast? with
  | none => []
  | some l => if isP 0x2C l then ts else ts ++ [.tok (.punct 0x2C)]

def comma : List Pat := [.p 0x2C]

def negGroup (v : TT) : TT := .group .paren [.tok (.punct 0x2D), v]
def posGroup (v : TT) : TT := .group .paren [v]

def liftO {α} : Option α → R α
  | some a => .ok a
  | none => .panic

/-- `@value` on a parenthesis group: the `(-nan) (nan) (-inf) (inf)` arms, then `$v:tt` used as the Rust
    expression `(-literal)` / `(literal)` -/
def parenValue : List TT → R MVal
  | [.tok (.punct c), .tok t] =>
    if c == 0x2D then
      match t with
      | .ident s =>
        if s == bNan then .ok (.float (Ieee.nanBits + Ieee.signBit))
        else if s == bInf then .ok (.float (Ieee.infBits + Ieee.signBit))
        else .unsupported
      | t => litValue true t
    else .unsupported
  | [.tok t] =>
    match t with
    | .ident s =>
      if s == bNan then .ok (.float Ieee.nanBits)
      else if s == bInf then .ok (.float Ieee.infBits)
      else litValue false (.ident s)
    | t => litValue false t
  | _ => .unsupported

/-- the `- $v:tt` / `+ $v:tt` arms of `@toplevel` rewrite the tokens to `(-$v)` / `($v)` and re-enter the muncher;
    the re-entered tokens start with a parenthesis group, so these two arms cannot match again -/
def rewriteSignTop (after : List TT) : List TT :=
  match after with
  | m :: v :: rest =>
    if isP 0x2D m then negGroup v :: rest
    else if isP 0x2B m then posGroup v :: rest
    else after
  | _ => after

/-- the same two arms of `@table` and `@array`, which also require the comma after `$v` -/
def rewriteSignComma (after : List TT) : List TT :=
  match after with
  | m :: v :: c :: rest =>
    if isP 0x2D m && isP 0x2C c then negGroup v :: c :: rest
    else if isP 0x2B m && isP 0x2C c then posGroup v :: c :: rest
    else after
  | _ => after

mutual
/-- `@value` arms in order -/
def value : Nat → TT → R MVal
  | 0, _ => .unsupported
  | fuel + 1, .group .brace ts => table fuel emptyTbl (withComma ts)
  | fuel + 1, .group .bracket ts =>
    match array fuel [] (withComma ts) with
    | .ok items => .ok (.arr items)
    | .unsupported => .unsupported
    | .panic => .panic
  | _ + 1, .group .paren ts => parenValue ts
  | _ + 1, .tok (.ident s) =>
    if s == bNan then .ok (.float Ieee.nanBits)
    else if s == bInf then .ok (.float Ieee.infBits)
    else litValue false (.ident s)
  -- `@value $v:tt` : the token is used as a Rust expression
  | _ + 1, .tok t => litValue false t

/-- `@table $root tokens…` (tokens end in a comma): the `key = …` arms in order -/
def table : Nat → MVal → List TT → R MVal
  | 0, _, _ => .unsupported
  | _ + 1, root, [] => .ok root
  | fuel + 1, root, ts =>
    match keyPath ts [] [] with
    | none => .unsupported
    | some (segs, after0) =>
      let after := rewriteSignComma after0
      match firstDt comma after dtArms with
      | some (dts, rest) =>
        match segsStr segs with
        | none => .unsupported
        | some path =>
          match dtValue dts with
          | .ok v =>
            match insertToml root path v with
            | some root' => table fuel root' rest
            | none => .panic
          | .unsupported => .unsupported
          | .panic => .panic
      | none =>
        match after with
        | v :: c :: rest =>
          if isP 0x2C c then
            match segsStr segs with
            | none => .unsupported
            | some path =>
              match value fuel v with
              | .ok val =>
                match insertToml root path val with
                | some root' => table fuel root' rest
                | none => .panic
              | .unsupported => .unsupported
              | .panic => .panic
          else .unsupported
        | _ => .unsupported

/-- `@array $root tokens…` (tokens end in a comma); `acc` is the vector built so far -/
def array : Nat → List MVal → List TT → R (List MVal)
  | 0, _, _ => .unsupported
  | _ + 1, acc, [] => .ok acc
  | fuel + 1, acc, ts0 =>
    let ts := rewriteSignComma ts0
    match firstDt comma ts dtArms with
    | some (dts, rest) =>
      match dtValue dts with
      | .ok v => array fuel (acc ++ [v]) rest
      | .unsupported => .unsupported
      | .panic => .panic
    | none =>
      match ts with
      | v :: c :: rest =>
        if isP 0x2C c then
          match value fuel v with
          | .ok val => array fuel (acc ++ [val]) rest
          | .unsupported => .unsupported
          | .panic => .panic
        else .unsupported
      | _ => .unsupported
end

/-- `@toplevel $root [$path] tokens…` -/
def toplevel (keep : Bool) : Nat → MVal → List Bytes → List TT → R MVal
  | 0, _, _, _ => .unsupported
  | _ + 1, root, _, [] => .ok root
  | fuel + 1, root, path, ts =>
    let headerArms : R MVal :=
      match ts with
      | .group .bracket inner :: rest =>
        -- `[[bin]]` arm first
        let aot : Option (List (List TT)) := match inner with
          | [.group .bracket inner2] => headerPath inner2 [] []
          | _ => none
        match aot with
        | some segs =>
          match segsStr segs with
          | none => .unsupported
          | some p =>
            match pushToml root p with
            | some root' => toplevel keep fuel root' p rest
            | none => .panic
        | none =>
          match headerPath inner [] [] with
          | some segs =>
            match segsStr segs with
            | none => .unsupported
            | some p =>
              -- `insert_toml(&mut root, path, Value::Table(Table::new()))`
              match headerTable keep root p with
              | some root' => toplevel keep fuel root' p rest
              | none => .panic
          | none => .unsupported
      | _ => .unsupported
    match keyPath ts [] [] with
    | none => headerArms
    | some (segs, after0) =>
      let after := rewriteSignTop after0
      match firstDt [] after dtArms with
      | some (dts, rest) =>
        match segsStr segs with
        | none => .unsupported
        | some ks =>
          match dtValue dts with
          | .ok v =>
            match insertToml root (path ++ ks) v with
            | some root' => toplevel keep fuel root' path rest
            | none => .panic
          | .unsupported => .unsupported
          | .panic => .panic
      | none =>
        match after with
        | v :: rest =>
          match segsStr segs with
          | none => .unsupported
          | some ks =>
            match value fuel v with
            | .ok val =>
              match insertToml root (path ++ ks) val with
              | some root' => toplevel keep fuel root' path rest
              | none => .panic
            | .unsupported => .unsupported
            | .panic => .panic
        | [] => headerArms

mutual
/-- number of tokens of a token tree, delimiters included -/
def sizeTT : TT → Nat
  | .tok _ => 1
  | .group _ ts => 2 + sizeTTs ts
def sizeTTs : List TT → Nat
  | [] => 0
  | t :: r => sizeTT t + sizeTTs r
end

/-- `toml! { tokens… }` -/
def macroDocWith (keep : Bool) (ts : List TT) : R MVal :=
  match ts with
  | [] => .unsupported       -- `($($toml:tt)+)`
  | _ => toplevel keep (2 * sizeTTs ts + 4) emptyTbl [] ts

/-- the macro as /repo has it (`headerKeeps` is read off the pinned copy of the header arm) -/
def macroDoc (ts : List TT) : R MVal := macroDocWith headerKeeps ts

/-- a single value through `@value` -/
def macroValue (t : TT) : R MVal := value (2 * sizeTTs [t] + 4) t

/-- text → table -/
def run (s : Bytes) : R MVal :=
  match tokens s with
  | some ts => macroDoc ts
  | none => .unsupported

end TomlVerif.Model.Macro
