import TomlVerif.Model.Numbers
/-! C11, serde conversions of integers: the integer widths serde knows and what the crates do with each.

  * `serInt`   — `serialize_{i8…u64}` of `toml_edit::ser::ValueSerializer` / `toml::value::ValueSerializer`
                 (crates/toml_edit/src/ser/value.rs, crates/toml/src/value.rs): every width is widened to `i64`;
                 `serialize_u64` uses `i64::try_from` and fails with `OutOfRange` / "u64 value was too large";
                 `serialize_i128/u128` are serde's defaults (an error).
  * `deInt`    — the primitive visitors of serde (`impl Deserialize for u8 …`) on `visit_i64` of the TOML deserializers:
                 range test of the target width, else "invalid value"; `i128/u128` targets: the TOML deserializers
                 never call `visit_i128`, serde's `deserialize_i128` default is an error.
  * `visitInt` — `impl Deserialize for toml::Value` (`ValueVisitor`, crates/toml/src/value.rs) fed by a FOREIGN
                 deserializer (serde's `U64Deserializer`, serde_json, …): `visit_i64` exact; `visit_u64` through
                 `i64::try_from`, else "u64 value was too large"; `visit_i32/u32` widened; `visit_i8/i16/u8/u16`
                 are serde's defaults (forward to `visit_i64` / `visit_u64`); `visit_i128/u128`: serde's default error. -/
namespace TomlVerif.Model.SerdeInt
open TomlVerif TomlVerif.Model.Numbers

inductive Kind where
  | u8 | i8 | u16 | i16 | u32 | i32 | u64 | i64 | u128 | i128
  deriving DecidableEq, Repr

def Kind.ofString? : String → Option Kind
  | "u8" => some .u8 | "i8" => some .i8 | "u16" => some .u16 | "i16" => some .i16 | "u32" => some .u32 | "i32" => some .i32
  | "u64" => some .u64 | "i64" => some .i64 | "u128" => some .u128 | "i128" => some .i128 | _ => none

def Kind.is128 : Kind → Bool
  | .u128 | .i128 => true
  | _ => false

/-- the values of the Rust type -/
def fits (k : Kind) (n : Int) : Bool :=
  match k with
  | .u8 => 0 ≤ n && n ≤ 255
  | .i8 => -128 ≤ n && n ≤ 127
  | .u16 => 0 ≤ n && n ≤ 65535
  | .i16 => -32768 ≤ n && n ≤ 32767
  | .u32 => 0 ≤ n && n ≤ 4294967295
  | .i32 => -2147483648 ≤ n && n ≤ 2147483647
  | .u64 => 0 ≤ n && n ≤ 18446744073709551615
  | .i64 => inI64 n
  | .u128 => 0 ≤ n && n ≤ 340282366920938463463374607431768211455
  | .i128 => -170141183460469231731687303715884105728 ≤ n && n ≤ 170141183460469231731687303715884105727

/-- serializing a value `n` of width `k`: the TOML integer written, or an error -/
def serInt (k : Kind) (n : Int) : Option Int :=
  if k.is128 then none else if inI64 n then some n else none

/-- reading the TOML integer `n` into the width `k` -/
def deInt (k : Kind) (n : Int) : Option Int :=
  if k.is128 then none else if inI64 n && fits k n then some n else none

/-- a value `n` of width `k` handed to `toml::Value`'s visitor by a foreign deserializer -/
def visitInt (k : Kind) (n : Int) : Option Int :=
  match k with
  | .u128 | .i128 => none
  | .u64 | .u8 | .u16 => if n ≤ i64Max then some n else none     -- `visit_u64`: `i64::try_from`
  | .u32 | .i32 | .i8 | .i16 | .i64 => some n

end TomlVerif.Model.SerdeInt
