import TomlVerif.Model.DeLocated
/-! C14, second sentence: spans delivered through serde — `serde_spanned::Spanned<T>` as a target.

    A wrapper grammar `STy` over `DeTyped.Ty` (which is not touched): `plain t` is a `Spanned`-free type, decoded by
    `DeLocated.decodeLoc`; `spanned t` is `Spanned<T>`; the other constructors are the positions a `Spanned` can sit
    below — `Option`, a newtype struct, `Vec`, a map (with a KEY type `KeyTy`: `String`, a newtype over a key type,
    `Spanned` of a key type), a derived struct, an enum with unit and newtype variants. (Tuples, tuple and struct
    variants occur inside `plain` only.)

    Transliterated:
      * serde_spanned/src/spanned.rs  `Spanned<T>::deserialize` = `deserialize_struct(NAME, [START, END, VALUE], visitor)`,
        `visit_map` reads the three private keys as `&str` and fails on anything else; no other `visit_*`.
      * toml_edit/src/de/value.rs `deserialize_struct`: `is_spanned(name, fields)` and `item_span(&self.input)` is
        `Some(span)` → `visitor.visit_map(SpannedDeserializer::new(self, span))` (NO `map_err`); `item_span` is the
        item's own span, else for a table / inline table the range its entries (keys and values, recursively) cover
        (`itemSpan`: tables made by dotted keys or implied by a longer header have no span of their own); no span at
        all (a despanned tree) → falls through to `deserialize_any(SpannedVisitor)`, which fails for every item.
      * de/spanned.rs `SpannedDeserializer`: start, end, then the value through `value.into_deserializer()`.
      * de/key.rs `KeyDeserializer { key, span }`: `deserialize_struct` Spanned branch with `span = Some` →
        `SpannedDeserializer::new(KeyDeserializer::new(key, None), span)` (the value part has NO span: a second
        `Spanned` inside fails), else `deserialize_any` = the string (`SpannedVisitor` fails);
        `deserialize_newtype_struct` → `visit_newtype_struct(self)` (span kept).
      * de/table.rs `next_key_seed`: `KeyDeserializer::new(k, k.span())`, error: the key's span if none.
      * serde's `StringDeserializer` / `BorrowedStrDeserializer` (the date-time map, an enum from a string):
        `deserialize_struct` / `deserialize_newtype_struct` forward to `visit_str`: `Spanned`, newtype keys fail.
      * `serde::__private::de::missing_field`: `Some(None)` for `Option<_>` only — `Spanned<Option<T>>` is an error. -/
namespace TomlVerif.Model.DeSpanned
open TomlVerif TomlVerif.Model TomlVerif.Model.TomlValue TomlVerif.Model.DeRoutes TomlVerif.Model.DeText
open TomlVerif.Model.DeTyped TomlVerif.Model.Cst TomlVerif.Model.DeLocated

/-! ## types and values -/

inductive KeyTy where
  | string
  | newtype (k : KeyTy)
  | spanned (k : KeyTy)

mutual
inductive STy where
  | plain (t : Ty)
  | spanned (t : STy)
  | option (t : STy)
  | newtype (t : STy)
  | seq (t : STy)
  | map (k : KeyTy) (t : STy)
  | struct (fs : SFields)
  | enum (vs : SVariants)
inductive SFields where
  | nil
  | cons (name : Bytes) (t : STy) (dflt : Bool) (r : SFields)
inductive SShape where
  | unit
  | newtype (t : STy)
inductive SVariants where
  | nil
  | cons (name : Bytes) (s : SShape) (r : SVariants)
end

instance : Inhabited STy := ⟨.plain .bool⟩

inductive SKey where
  | str (s : Bytes)
  | newtype (k : SKey)
  | spanned (a b : Nat) (k : SKey)

inductive SDec where
  | plain (d : Dec)
  | spanned (a b : Nat) (d : SDec)
  | dflt
  | none
  | some (d : SDec)
  | newtype (d : SDec)
  | seq (l : List SDec)
  /-- entries in document order -/
  | map (l : List (SKey × SDec))
  | struct (l : List (Bytes × SDec))
  | vUnit (name : Bytes)
  | vNewtype (name : Bytes) (d : SDec)

instance : Inhabited SDec := ⟨.dflt⟩

/-! ## forgetting the wrappers -/

mutual
def strip : STy → Ty
  | .plain t => t
  | .spanned t => strip t
  | .option t => .option (strip t)
  | .newtype t => .newtype (strip t)
  | .seq t => .seq (strip t)
  | .map _ t => .map (strip t)
  | .struct fs => .struct (stripFields fs)
  | .enum vs => .enum (stripVariants vs)
def stripFields : SFields → Fields
  | .nil => .nil
  | .cons n t d r => .cons n (strip t) d (stripFields r)
def stripShape : SShape → Shape
  | .unit => .unit
  | .newtype t => .newtype (strip t)
def stripVariants : SVariants → Variants
  | .nil => .nil
  | .cons n s r => .cons n (stripShape s) (stripVariants r)
end

def stripKey : SKey → Bytes
  | .str s => s
  | .newtype k => stripKey k
  | .spanned _ _ k => stripKey k

mutual
def stripDec : SDec → Dec
  | .plain d => d
  | .spanned _ _ d => stripDec d
  | .dflt => .dflt
  | .none => .none
  | .some d => .some (stripDec d)
  | .newtype d => .newtype (stripDec d)
  | .seq l => .seq (stripDecs l)
  | .map l => .map (collectSorted [] (stripEntries l))
  | .struct l => .struct (stripNamed l)
  | .vUnit n => .vUnit n
  | .vNewtype n d => .vNewtype n (stripDec d)
def stripDecs : List SDec → List Dec
  | [] => []
  | d :: r => stripDec d :: stripDecs r
def stripEntries : List (SKey × SDec) → List (Bytes × Dec)
  | [] => []
  | (k, d) :: r => (stripKey k, stripDec d) :: stripEntries r
def stripNamed : List (Bytes × SDec) → List (Bytes × Dec)
  | [] => []
  | (k, d) :: r => (k, stripDec d) :: stripNamed r
end

/-! ## `item_span` -/

/-- the range two optional ranges cover together -/
def cover : Option Span → Option Span → Option Span
  | none, o => o
  | some s, none => some s
  | some s, some t => some (min s.1 t.1, max s.2 t.2)

mutual
def ispanVal : CVal → Option Span
  | .scalar _ r _ => r.span
  | .arr _ _ _ _ sp => sp
  | .inl items _ _ _ _ sp =>
    match sp with
    | some s => some s
    | none => ispanKvs items
def ispanKvs : List (CKey × CVal) → Option Span
  | [] => none
  | (k, v) :: r => cover (cover (keySpan k) (ispanVal v)) (ispanKvs r)
end

mutual
/-- `item_span` (value.rs) -/
def itemSpan : CItem → Option Span
  | .value v => ispanVal v
  | .table t => ispanTbl t
  | .aot _ sp => sp
def ispanTbl : CTbl → Option Span
  | .mk items _ _ _ _ sp =>
    match sp with
    | some s => some s
    | none => ispanItems items
def ispanItems : List (CKey × CItem) → Option Span
  | [] => none
  | (k, v) :: r => cover (cover (keySpan k) (itemSpan v)) (ispanItems r)
end

/-! ## keys -/

/-- `K::deserialize(KeyDeserializer::new(key, span))` (the error is the visitor's) -/
def decodeKey : KeyTy → Bytes → Option Span → LR SKey
  | .string, k, _ => .ok (.str k)
  | .newtype kt, k, sp => lmap .newtype (decodeKey kt k sp)
  | .spanned kt, k, some (a, b) => lmap (.spanned a b) (decodeKey kt k none)
  | .spanned _, _, none => vfail

/-- the same on serde's `BorrowedStrDeserializer` (the key of the date-time map) -/
def decodeKeyStr : KeyTy → Bytes → LR SKey
  | .string, k => .ok (.str k)
  | _, _ => vfail

/-! ## the decoder -/

def SFields.hasName (k : Bytes) : SFields → Bool
  | .nil => false
  | .cons n _ _ r => n == k || r.hasName k

/-- `walkEntries` of Model/DeLocated.lean for any value type -/
def walkG {ε σ δ} (dup : ε) (known : Bytes → Bool) (f : Bytes → σ → Except ε (Option δ)) :
    List Bytes → List (Bytes × σ) → Except ε (List (Bytes × δ))
  | _, [] => .ok []
  | seen, (k, s) :: r =>
    if known k && seen.contains k then .error dup else
    match f k s with
    | .error e => .error e
    | .ok none => walkG dup known f seen r
    | .ok (some d) =>
      match walkG dup known f (k :: seen) r with
      | .error e => .error e
      | .ok ds => .ok ((k, d) :: ds)

/-- `missing_field` -/
def missingSp : STy → Option SDec
  | .option _ => some .none
  | .plain (.option _) => some (.plain .none)
  | _ => none

def fillSp : SFields → List (Bytes × SDec) → LR (List (Bytes × SDec))
  | .nil, _ => .ok []
  | .cons name t dflt r, ds =>
    let here : LR (Bytes × SDec) :=
      match alookup name ds with
      | some d => .ok (name, d)
      | none =>
        if dflt then .ok (name, .dflt) else
        match missingSp t with
        | some d => .ok (name, d)
        | none => vfail
    match here with
    | .error e => .error e
    | .ok x =>
      match fillSp r ds with
      | .error e => .error e
      | .ok l => .ok (x :: l)

mutual
/-- `T::deserialize(StringDeserializer(s))` -/
def decodeStrSp : STy → Bytes → R SDec
  | .plain t, s => rmap .plain (decodeStrDe t s)
  | .enum vs, s => unitOnlySp vs s
  | _, _ => fail
def unitOnlySp : SVariants → Bytes → R SDec
  | .nil, _ => fail
  | .cons n sh r, k =>
    if n == k then (match sh with | .unit => .ok (.vUnit n) | .newtype _ => fail) else unitOnlySp r k
end

mutual
/-- `STySeed(ty).deserialize(ValueDeserializer::new(item))` -/
def decodeSp (fl : Flavour) : STy → CItem → LR SDec
  | .plain t, it => lmap .plain (decodeLoc fl t it)
  -- `deserialize_struct(NAME, FIELDS, SpannedVisitor)`
  | .spanned t, it =>
    match itemSpan it with
    | some (a, b) => lmap (.spanned a b) (decodeSp fl t it)
    -- no span anywhere in the item: `deserialize_any(SpannedVisitor)` fails whatever the item
    | none => atSpan it.span vfail
  | .option t, it => atSpan it.span (lmap .some (decodeSp fl t it))
  | .newtype t, it => atSpan it.span (lmap .newtype (decodeSp fl t it))
  | .seq t, it =>
    atSpan it.span
      (match citemElems it with
       | some l => lmap .seq (mapL (fun i => atSpan i.span (decodeSp fl t i)) l)
       | none => vfail)
  | .map kt t, it =>
    atSpan it.span
      (match locMapEntries it with
       | some es =>
         lmap .map (mapL (fun kv : Bytes × LSrc =>
           match kv.2 with
           | .item k i =>
             -- `next_key_seed`, then `next_value_seed`
             (match atSpan (keySpan k) (decodeKey kt k.key (keySpan k)) with
              | .error e => .error e
              | .ok key => lmap (fun d => (key, d)) (inEntry (entrySpan k i) k.key (decodeSp fl t i)))
           | .str s =>
             (match decodeKeyStr kt kv.1 with
              | .error e => .error e
              | .ok key => lmap (fun d => (key, d)) (liftV (decodeStrSp t s)))) es)
       | none => vfail)
  | .struct fs, it =>
    atSpan it.span
      (match locMapEntries it with
       | some es =>
         (match walkG visitorErr fs.hasName (fun k src => decodeSpEntry fl fs k src) [] es with
          | .error e => .error e
          | .ok ds => lmap .struct (fillSp fs ds))
       | none =>
         match citemElems it with
         | some l => lmap .struct (decodeSpFieldsSeq fl fs l)
         | none => vfail)
  | .enum vs, it =>
    atSpan it.span
      (match eraseItem it with
       | .value (.str s) => liftV (unitOnlySp vs s)
       | _ =>
         match citemEntries it with
         | some [(k, payload)] => decodeSpVariants fl vs k payload
         | some _ => failAt it.span
         | none => failAt it.span)
def decodeSpEntry (fl : Flavour) : SFields → Bytes → LSrc → LR (Option SDec)
  | .nil, _, _ => .ok none
  | .cons name t _ r, k, src =>
    if name == k then
      lmap some
        (match src with
         | .item key i => inEntry (entrySpan key i) key.key (decodeSp fl t i)
         | .str s => liftV (decodeStrSp t s))
    else decodeSpEntry fl r k src
def decodeSpFieldsSeq (fl : Flavour) : SFields → List CItem → LR (List (Bytes × SDec))
  | .nil, _ => .ok []
  | .cons name _ dflt r, [] =>
    if dflt then lmap (fun ds => (name, SDec.dflt) :: ds) (decodeSpFieldsSeq fl r []) else vfail
  | .cons name t _ r, i :: l =>
    lcons (lmap (fun d => (name, d)) (atSpan i.span (decodeSp fl t i))) (decodeSpFieldsSeq fl r l)
def decodeSpVariants (fl : Flavour) : SVariants → CKey → CItem → LR SDec
  | .nil, k, _ => failAt (keySpan k)
  | .cons name s r, k, p => if name == k.key then decodeSpShape fl s name p else decodeSpVariants fl r k p
def decodeSpShape (fl : Flavour) : SShape → Bytes → CItem → LR SDec
  | .unit, n, p => lmap (fun _ => .vUnit n) (decodeLocShape fl .unit n p)
  | .newtype t, n, p => lmap (.vNewtype n) (decodeSp fl t p)
end

end TomlVerif.Model.DeSpanned
