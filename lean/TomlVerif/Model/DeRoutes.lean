import TomlVerif.Model.TomlValue
/-! Model of the serde-facing side of the decoding routes.

  * `Pres` — what a `Deserializer` shows to a visitor through `deserialize_any`.
  * `presValue` — `impl Deserializer for toml::Value` (`crates/toml/src/value.rs`): every variant, with
    the presentation of `Value::Datetime` as the parameter `dtAsMap`
    (`false` = `visitor.visit_string(v.to_string())`, the code as it stands;
     `true`  = a one-entry map under the private key, what `toml_edit` does).
  * `presEdit` — `toml_edit::de::ValueDeserializer::deserialize_any` (`crates/toml_edit/src/de/value.rs`)
    on the item that holds the same data: `Datetime` goes to `visit_map(DatetimeDeserializer)`.
  * `visitValue` — `impl Deserialize for toml::Value` (`ValueVisitor`), including the private-key test of
    `visit_map` (`DatetimeOrTable`) and the duplicate-key error.
  * `visitTable` — `impl Deserialize for Map<String, Value>`.
  * `decodeDatetime` — `impl Deserialize for toml_datetime::Datetime` after `deserialize_struct(NAME, [FIELD])`.
  * `Method` / `*Dispatch` — which `deserialize_*` methods each deserializer implements itself and
    which it forwards to `deserialize_any` (`serde::forward_to_deserialize_any!` lists).
  * `Ser` / `serCalls` / `valueSerializer` — the serializer direction: the serde calls `impl Serialize for
    Value` makes, and `toml::value::ValueSerializer` with the parameter `honourName`
    (`false` = `serialize_struct` ignores the struct name, the code as it stands). -/
namespace TomlVerif.Model.DeRoutes
open TomlVerif TomlVerif.Model TomlVerif.Model.TomlValue

/-- `toml_datetime::__unstable::FIELD` = "$__toml_private_datetime" -/
def FIELD : Bytes := [36, 95, 95, 116, 111, 109, 108, 95, 112, 114, 105, 118, 97, 116, 101, 95, 100, 97, 116, 101, 116, 105, 109, 101]
/-- `toml_datetime::__unstable::NAME` = "$__toml_private_Datetime" -/
def NAME : Bytes := [36, 95, 95, 116, 111, 109, 108, 95, 112, 114, 105, 118, 97, 116, 101, 95, 68, 97, 116, 101, 116, 105, 109, 101]

inductive Pres where
  | bool (b : Bool)
  | i64 (n : Int)
  | f64 (bits : Nat)
  | string (s : Bytes)
  | seq (items : List Pres)
  | map (entries : List (Bytes × Pres))

instance : Inhabited Pres := ⟨.bool false⟩

/-- the one-entry map of `DatetimeDeserializer` -/
def dtMap (d : Datetime.Datetime) : Pres := .map [(FIELD, .string (Datetime.Std.display d))]

mutual
/-- `impl Deserializer for toml::Value`, `deserialize_any` -/
def presValue (dtAsMap : Bool) : TV → Pres
  | .bool b => .bool b
  | .int n => .i64 n
  | .float b => .f64 b
  | .str s => .string s
  | .dt d => if dtAsMap then dtMap d else .string (Datetime.Std.display d)
  | .arr l => .seq (presValueList dtAsMap l)
  | .tbl items => .map (presValuePairs dtAsMap items)
def presValueList (dtAsMap : Bool) : List TV → List Pres
  | [] => []
  | v :: r => presValue dtAsMap v :: presValueList dtAsMap r
def presValuePairs (dtAsMap : Bool) : List (Bytes × TV) → List (Bytes × Pres)
  | [] => []
  | (k, v) :: r => (k, presValue dtAsMap v) :: presValuePairs dtAsMap r
end

mutual
/-- `toml_edit::de::ValueDeserializer::deserialize_any` on the item holding the data `v` -/
def presEdit : TV → Pres
  | .bool b => .bool b
  | .int n => .i64 n
  | .float b => .f64 b
  | .str s => .string s
  | .dt d => dtMap d
  | .arr l => .seq (presEditList l)
  | .tbl items => .map (presEditPairs items)
def presEditList : List TV → List Pres
  | [] => []
  | v :: r => presEdit v :: presEditList r
def presEditPairs : List (Bytes × TV) → List (Bytes × Pres)
  | [] => []
  | (k, v) :: r => (k, presEdit v) :: presEditPairs r
end

/-- the code as it stands: `Value::Datetime(v) => visitor.visit_string(v.to_string())` -/
def currentDtAsMap : Bool := true

/-- insert the decoded entries one by one: `map.entry(&key)` vacant → insert, occupied → "duplicate key" -/
def insertAll (fl : Flavour) : List (Bytes × TV) → List (Bytes × TV) → Option (List (Bytes × TV))
  | acc, [] => some acc
  | acc, (k, v) :: r =>
    match alookup k acc with
    | some _ => none
    | none => insertAll fl (mapInsert fl k v acc) r

/-- `Map::insert` for every entry (later entries replace earlier ones) -/
def insertAllReplace (fl : Flavour) : List (Bytes × TV) → List (Bytes × TV) → List (Bytes × TV)
  | acc, [] => acc
  | acc, (k, v) :: r => insertAllReplace fl (mapInsert fl k v acc) r

mutual
/-- `impl Deserialize for toml::Value` (`ValueVisitor`). `strict` = the map access reports entries the
visitor left unread (`toml::Value`'s `MapDeserializer` does: "fewer elements in map"; `toml_edit`'s does not). -/
def visitValue (fl : Flavour) (strict : Bool) : Pres → Option TV
  | .bool b => some (.bool b)
  | .i64 n => some (.int n)
  | .f64 b => some (.float b)
  | .string s => some (.str s)
  | .seq l => (visitList fl strict l).map .arr
  | .map [] => some (.tbl [])
  | .map ((k, p) :: r) =>
    if k == FIELD then
      -- `Some(true)`: `visitor.next_value::<DatetimeFromString>()`, then return at once
      match p with
      | .string s =>
        if strict && !r.isEmpty then none
        else (Datetime.Std.fromStr s).map .dt
      | _ => none
    else
      match visitValue fl strict p, visitPairs fl strict r with
      | some v, some rest => (insertAll fl (mapInsert fl k v []) rest).map .tbl
      | _, _ => none
def visitList (fl : Flavour) (strict : Bool) : List Pres → Option (List TV)
  | [] => some []
  | p :: r =>
    match visitValue fl strict p, visitList fl strict r with
    | some v, some r' => some (v :: r')
    | _, _ => none
def visitPairs (fl : Flavour) (strict : Bool) : List (Bytes × Pres) → Option (List (Bytes × TV))
  | [] => some []
  | (k, p) :: r =>
    match visitValue fl strict p, visitPairs fl strict r with
    | some v, some r' => some ((k, v) :: r')
    | _, _ => none
end

/-- `impl Deserialize for Map<String, Value>`: `deserialize_map`, every entry through `Value`'s visitor,
`Map::insert` (no private-key test at this level, no duplicate error) -/
def visitTable (fl : Flavour) (strict : Bool) : Pres → Option (List (Bytes × TV))
  | .map entries => (visitPairs fl strict entries).map (insertAllReplace fl [])
  | _ => none

/-- `impl Deserialize for Datetime`: `visit_map` reads the private key, then the string; every other
`visit_*` is the default "invalid type" error -/
def decodeDatetime : Pres → Option Datetime.Datetime
  | .map ((k, .string s) :: _) => if k == FIELD then Datetime.Std.fromStr s else none
  | _ => none

/-! ### method dispatch of the deserializers -/

inductive Method where
  | any | option | newtypeStruct | struct | enum
  | other   -- bool … identifier: everything else of the `Deserializer` trait
  deriving DecidableEq, Repr

/-- `toml_edit::de::Deserializer` and `toml_edit::de::ValueDeserializer`: own code for these, the rest
is `forward_to_deserialize_any!` -/
def editDispatch : Method → Method
  | .any => .any | .option => .option | .newtypeStruct => .newtypeStruct | .struct => .struct | .enum => .enum
  | .other => .any

/-- `toml::de::Deserializer` / `toml::de::ValueDeserializer`: the method of the inner `toml_edit`
deserializer each entry point calls after parsing -/
def tomlWrapperDispatch : Method → Method
  | .any => .any | .option => .option | .newtypeStruct => .newtypeStruct | .struct => .struct | .enum => .enum
  | .other => .any

/-- `impl Deserializer for toml::Value` (and `toml::Table`, which delegates to it): `struct` is in the
forward list, so `Datetime::deserialize`'s `deserialize_struct(NAME, [FIELD])` lands in `deserialize_any` -/
def valueDispatch : Method → Method
  | .any => .any | .option => .option | .newtypeStruct => .newtypeStruct | .enum => .enum
  | .struct => .any
  | .other => .any

/-! ### the serializer direction -/

/-- the part of the serde data model `impl Serialize for Value` uses -/
inductive Ser where
  | bool (b : Bool)
  | i64 (n : Int)
  | f64 (bits : Nat)
  | str (s : Bytes)
  | seq (items : List Ser)
  | map (entries : List (Bytes × Ser))
  | struct (name : Bytes) (fields : List (Bytes × Ser))

/-- the three passes on entries tagged with their pass number -/
def serOrderSer (l : List (Bytes × (Nat × Ser))) : List (Bytes × Ser) :=
  ((l.filter fun e => e.2.1 == 1) ++ (l.filter fun e => e.2.1 == 2) ++ (l.filter fun e => e.2.1 == 3)).map
    fun e => (e.1, e.2.2)

mutual
/-- `impl Serialize for Value`; `Datetime::serialize` is `serialize_struct(NAME, 1)` with the one field -/
def serCalls : TV → Ser
  | .bool b => .bool b
  | .int n => .i64 n
  | .float b => .f64 b
  | .str s => .str s
  | .dt d => .struct NAME [(FIELD, .str (Datetime.Std.display d))]
  | .arr l => .seq (serCallsList l)
  | .tbl items => .map (serOrderSer (serCallsPairs items))
/-- entries in the order of the three passes; the pass of an entry is decided on the `TV` -/
def serCallsPairs : List (Bytes × TV) → List (Bytes × (Nat × Ser))
  | [] => []
  | (k, v) :: r => (k, ((if pass1 v then 1 else if pass2 v then 2 else 3), serCalls v)) :: serCallsPairs r
def serCallsList : List TV → List Ser
  | [] => []
  | v :: r => serCalls v :: serCallsList r
end

/-- the code as it stands: `ValueSerializer::serialize_struct(_name, len)` is `serialize_map` -/
def currentHonourName : Bool := true

/-- binary64 NaN test and `copysign(1.0)` on a NaN (the same definition as `Spec.Serde.clearNanSign`) -/
def clearNanSign64 (b : Nat) : Nat :=
  if (b / 2 ^ 52) % 2048 == 2047 && b % 2 ^ 52 != 0 then b % 2 ^ 63 else b

mutual
/-- `toml::value::ValueSerializer` (what `Value::try_from` runs) -/
def valueSerializer (fl : Flavour) (honourName : Bool) : Ser → Option TV
  | .bool b => some (.bool b)
  | .i64 n => some (.int n)
  | .f64 b => some (.float (clearNanSign64 b))   -- `serialize_f64`: `copysign(1.0)` on a NaN
  | .str s => some (.str s)
  | .seq l => (valueSerializerList fl honourName l).map .arr
  | .map entries => (valueSerializerPairs fl honourName entries).map fun ps => .tbl (insertAllReplace fl [] ps)
  | .struct name fields =>
    match valueSerializerPairs fl honourName fields with
    | none => none
    | some ps =>
      let t := insertAllReplace fl [] ps
      if honourName && name == NAME then
        match alookup FIELD t with
        | some (.str s) => (Datetime.Std.fromStr s).map .dt
        | _ => some (.tbl t)
      else some (.tbl t)
def valueSerializerList (fl : Flavour) (honourName : Bool) : List Ser → Option (List TV)
  | [] => some []
  | s :: r =>
    match valueSerializer fl honourName s, valueSerializerList fl honourName r with
    | some v, some r' => some (v :: r')
    | _, _ => none
def valueSerializerPairs (fl : Flavour) (honourName : Bool) : List (Bytes × Ser) → Option (List (Bytes × TV))
  | [] => some []
  | (k, s) :: r =>
    match valueSerializer fl honourName s, valueSerializerPairs fl honourName r with
    | some v, some r' => some ((k, v) :: r')
    | _, _ => none
end

end TomlVerif.Model.DeRoutes
