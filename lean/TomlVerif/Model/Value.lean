import TomlVerif.Model.Tree
import TomlVerif.Model.Strings
import TomlVerif.Model.Key
import TomlVerif.Model.Numbers
/-! Model of `parser/{trivia,key,value,array,inline_table}.rs`: trivia, dotted keys, values,
    arrays and inline tables (with `table_from_pairs`). `LIMIT` is the recursion limit. -/
namespace TomlVerif.Model.Value
open TomlVerif TomlVerif.Spec TomlVerif.Model TomlVerif.Model.Strings

def LIMIT : Nat := 80

/-- `comment`: `#` then `*non-eol`; input starts at `#` -/
def dropComment : Bytes → Bytes
  | [] => []
  | b :: r => if isNonEol b then dropComment r else b :: r

/-- `ws_comment_newline`; `none` = the Backtrack error that escapes when a comment is not followed
    by a newline or a CR is not followed by LF -/
def wsCommentNewline : Nat → Bytes → Option Bytes
  | 0, s => some s
  | fuel + 1, s =>
    let s1 := dropWs s
    match s1 with
    | [] => some s1
    | b :: r =>
      if b == 0x23 then
        match newline? (dropComment r) with
        | some r' => wsCommentNewline fuel r'
        | none => none
      else if b == 0x0A || b == 0x0D then
        match newline? s1 with
        | some r' => wsCommentNewline fuel r'
        | none => none
      else some s1

/-- `line_trailing`: `ws [comment] (newline / eof)` -/
def lineTrailing (s : Bytes) : Res Unit :=
  let s1 := dropWs s
  let s2 := match s1 with
    | 0x23 :: r => dropComment r
    | _ => s1
  match s2 with
  | [] => .ok () []
  | _ => match newline? s2 with
    | some r => .ok () r
    | none => .bt

/-- `key`: `separated(1.., (ws, simple_key, ws), '.')` with the `check_depth(len)` guard (a Backtrack error) -/
def keyPathAux : Nat → Bytes → List Bytes → Res (List Bytes)
  | 0, _, _ => .bt
  | fuel + 1, s, acc =>
    -- an element
    match Key.simpleKey (dropWs s) with
    | .ok k r =>
      let r1 := dropWs r
      match r1 with
      | 0x2E :: r2 =>
        -- after a separator a failing element resets to before the separator
        match keyPathAux fuel r2 (acc ++ [k]) with
        | .bt => .ok (acc ++ [k]) r1
        | other => other
      | _ => .ok (acc ++ [k]) r1
    | .bt => .bt
    | .cut => .cut

def keyPath (s : Bytes) : Res (List Bytes) :=
  match keyPathAux (s.length + 1) s [] with
  | .ok ks r => if LIMIT ≤ ks.length then .bt else .ok ks r
  | other => other

/-- `descend_path` of inline_table.rs + the final insertion of `table_from_pairs`, functionally:
    insert `(key, v)` below `path` in the item list of an inline table. `none` = CustomError. -/
def inlInsert : List (Bytes × Val) → Bool → List Bytes → Bool → Bytes → Val → Option (List (Bytes × Val))
  | items, tblDotted, [], pathEmpty, key, v =>
    -- mixed_table_types = table.is_dotted() == path.is_empty()
    if tblDotted == pathEmpty then none
    else match alookup key items with
      | some _ => none
      | none => some (items ++ [(key, v)])
  | items, _, k :: ks, pathEmpty, key, v =>
    -- dotted = !path.is_empty() is true on this branch
    match alookup k items with
    | none =>
      match inlInsert [] true ks pathEmpty key v with
      | some sub => some (items ++ [(k, .inl sub true true)])
      | none => none
    | some (.inl sub imp dot) =>
      if !imp then none
      else match inlInsert sub dot ks pathEmpty key v with
        | some sub' => some (areplace k (.inl sub' imp dot) items)
        | none => none
    | some _ => none

/-- `table_from_pairs` -/
def tableFromPairs : List (List Bytes × Bytes × Val) → List (Bytes × Val) → Option (List (Bytes × Val))
  | [], acc => some acc
  | (path, key, v) :: rest, acc =>
    match inlInsert acc false path path.isEmpty key v with
    | some acc' => tableFromPairs rest acc'
    | none => none

def splitLast {α} : List α → Option (List α × α)
  | [] => none
  | [x] => some ([], x)
  | x :: r => match splitLast r with
    | some (i, l) => some (x :: i, l)
    | none => none

mutual
/-- `value` at recursion depth `d` (`RecursionCheck.current`) -/
def value : Nat → Nat → Bytes → Res Val
  | 0, _, _ => .cut
  | fuel + 1, d, s =>
    match s with
    | [] => .bt
    | b :: r =>
      if b == 0x22 || b == 0x27 then (Strings.string s).map Val.str
      else if b == 0x5B then
        -- check_recursion(array)
        if LIMIT ≤ d + 1 then .cut
        else match arrayValues fuel (d + 1) r with
          | .ok vs r1 =>
            match r1 with
            | 0x5D :: r2 => .ok (.arr vs) r2
            | _ => .cut
          | _ => .cut
      else if b == 0x7B then
        if LIMIT ≤ d + 1 then .cut
        else match inlineKeyvals fuel (d + 1) r [] with
          | .ok kvs r1 =>
            match tableFromPairs kvs [] with
            | none => .cut
            | some items =>
              match dropWs r1 with
              | 0x7D :: r2 => .ok (.inl items false false) r2
              | _ => .cut
          | _ => .cut
      else if b == 0x2B || b == 0x2D || isDigit b then
        match Datetime.Doc.dateTime s with
        | .ok dtv r1 => .ok (.dt dtv) r1
        | .cut => .cut
        | .bt =>
          match Numbers.float s with
          | .ok bits r1 => .ok (.float bits) r1
          | .cut => .cut
          | .bt => (Numbers.integer s).map Val.int
      else if b == 0x5F then (Numbers.integer s).map Val.int
      else if b == 0x2E then (Numbers.float s).map Val.float
      else if b == 0x74 then (Numbers.keyword [0x74, 0x72, 0x75, 0x65] s).map fun _ => Val.bool true
      else if b == 0x66 then (Numbers.keyword [0x66, 0x61, 0x6C, 0x73, 0x65] s).map fun _ => Val.bool false
      else if b == 0x69 then
        match Numbers.startsWith [0x69, 0x6E, 0x66] s with
        | some r1 => .ok (.float Ieee.infBits) r1
        | none => .bt
      else if b == 0x6E then
        match Numbers.startsWith [0x6E, 0x61, 0x6E] s with
        | some r1 => .ok (.float Ieee.nanBits) r1
        | none => .bt
      else .bt

/-- `array_values` (input after `[`): returns the values and the input at the closing bracket -/
def arrayValues : Nat → Nat → Bytes → Res (List Val)
  | 0, _, _ => .cut
  | fuel + 1, d, s =>
    match s with
    | 0x5D :: _ => .ok [] s
    | _ =>
      match arrayElems fuel d s [] with
      | .ok vs r =>
        let r1 := if vs.isEmpty then r else (match r with | 0x2C :: t => t | _ => r)
        match wsCommentNewline (r1.length + 1) r1 with
        | some r2 => .ok vs r2
        | none => .bt
      | other => other

/-- `separated(0.., array_value, ',')` -/
def arrayElems : Nat → Nat → Bytes → List Val → Res (List Val)
  | 0, _, _, _ => .cut
  | fuel + 1, d, s, acc =>
    -- array_value = wcn value wcn ; a Backtrack anywhere ends the list (resetting to `s`)
    match wsCommentNewline (s.length + 1) s with
    | none => .ok acc s
    | some s1 =>
      match value fuel d s1 with
      | .cut => .cut
      | .bt => .ok acc s
      | .ok v s2 =>
        match wsCommentNewline (s2.length + 1) s2 with
        | none => .ok acc s
        | some s3 =>
          match s3 with
          | 0x2C :: s4 =>
            -- separator seen: a failing next element resets to before the separator
            match arrayElems fuel d s4 (acc ++ [v]) with
            | .ok vs r => if vs.length == (acc ++ [v]).length then .ok vs s3 else .ok vs r
            | other => other
          | _ => .ok (acc ++ [v]) s3

/-- `separated(0.., keyval, ',')` of an inline table (input after `{` or after a comma) -/
def inlineKeyvals : Nat → Nat → Bytes → List (List Bytes × Bytes × Val) → Res (List (List Bytes × Bytes × Val))
  | 0, _, _, _ => .cut
  | fuel + 1, d, s, acc =>
    match keyPath s with
    | .cut => .cut
    | .bt => .ok acc s
    | .ok ks r =>
      -- check_recursion_nested(path.len() - 1, …): the dotted key's tables count against the limit
      if LIMIT ≤ d + (ks.length - 1) then .cut else
      match r with
      | 0x3D :: r1 =>
        match value fuel (d + (ks.length - 1)) (dropWs r1) with
        | .ok v r2 =>
          let r3 := dropWs r2
          match splitLast ks with
          | none => .cut
          | some (path, key) =>
            let acc' := acc ++ [(path, key, v)]
            match r3 with
            | 0x2C :: r4 =>
              match inlineKeyvals fuel d r4 acc' with
              | .ok kvs r5 => if kvs.length == acc'.length then .ok kvs r3 else .ok kvs r5
              | other => other
            | _ => .ok acc' r3
        | _ => .cut
      | _ => .cut
end

/-- `parse_value`: the whole text is one value -/
def parseValue (s : Bytes) : Option Val :=
  match value (3 * s.length + 4) 0 s with
  | .ok v [] => some v
  | _ => none

end TomlVerif.Model.Value
