import TomlVerif.Model.DeTyped
import TomlVerif.Model.Cst
/-! C15, second sentence: WHERE a deserialization error is located.

    `decodeLoc` is `DeTyped.decodeEdit` (the code as it stands, `editAsIs`) run on the tree the format-preserving parser
    builds (`Model/Cst.lean`: every value, key, table and array of tables with the `Option Span` the parser records),
    with the error value of `toml_edit::de::Error` that matters for locating: `span` and `keys`.

    Transliterated (crates/toml_edit/src/de):
      * value.rs   every method of `ValueDeserializer` ends with
                   `.map_err(|mut e| { if e.span().is_none() { e.set_span(span) } e })`, `span = self.input.span()`
                   (`atSpan`); `deserialize_enum`'s own errors are `Error::custom(msg, span)` (`failAt`);
                   `deserialize_struct` under `with_struct_key_validation` reports the FIRST extra key's span.
      * table.rs   `TableMapAccess::next_value_seed`: `span = v.span().or_else(|| k.span())`, set if none, then
                   `e.add_key(k)` (`inEntry`; `TomlError::add_key` is `keys.insert(0, key)`: OUTERMOST FIRST);
                   `next_key_seed` / `variant_seed`: the key's span if none; `deserialize_enum`: the table's span.
      * array.rs   `ArraySeqAccess::next_element_seed`: the ELEMENT's span if none (`atSpan i.span`; every `visit_seq`
                   reads through it: `Vec`, tuples, a struct or struct variant from an array, a tuple variant from an
                   array or from a table with index keys, `toml::Value`'s sequence). No key.
      * table_enum.rs  `unit_variant` / `tuple_variant`: `Error::custom(msg, <payload>.span())`, a key that is not the
                   index: `key.span()`; `newtype_variant_seed` / `struct_variant` add nothing of their own.
      * datetime.rs `DatetimeDeserializer` adds nothing (no key either).
      * mod.rs     `Deserializer::deserialize_*` only `set_raw`; a `Deserializer` made from a `DocumentMut` holds the
                   despanned tree (`ImDocument::into_mut` → `despan`: every span `None`) — `despanItem`.
    Errors made by a visitor or a `Deserialize` impl (`serde::de::Error::custom`) start with no span and no keys
    (`visitorErr`). The visitors are those of `TySeed` (harness/src/c13typed.rs) = serde's std impls and serde_derive:
    a derived struct's `visit_map` walks the ENTRIES in document order (`walkEntries`), then reports missing fields in
    FIELD order (`fillFields`); `Date` / `Time` test the shape AFTER `Datetime::deserialize` returned, i.e. outside every
    `map_err` of the deserializer that was consumed (`shapeCheck`). -/
namespace TomlVerif.Model.DeLocated
open TomlVerif TomlVerif.Model TomlVerif.Model.TomlValue TomlVerif.Model.DeRoutes TomlVerif.Model.DeText
open TomlVerif.Model.DeTyped TomlVerif.Model.Cst
open TomlVerif.Model.Datetime (Datetime)

/-- the locating part of `toml_edit::TomlError`: `span`, `keys` (outermost first) -/
structure LErr where
  span : Option Span
  keys : List Bytes
  deriving DecidableEq, Repr

abbrev LR := Except LErr

/-- `serde::de::Error::custom(msg)` = `Error::custom(msg, None)`: what visitors and `Deserialize` impls raise -/
def visitorErr : LErr := ⟨none, []⟩

def vfail {α} : LR α := .error visitorErr

/-- `Err(Error::custom(msg, span))` -/
def failAt {α} (sp : Option Span) : LR α := .error ⟨sp, []⟩

/-- `.map_err(|mut e| { if e.span().is_none() { e.set_span(span); } e })` -/
def atSpan {α} (sp : Option Span) : LR α → LR α
  | .ok a => .ok a
  | .error e => .error (if e.span.isNone then ⟨sp, e.keys⟩ else e)

/-- `TableMapAccess::next_value_seed`'s `map_err`: the span if none, then `add_key` -/
def inEntry {α} (sp : Option Span) (k : Bytes) : LR α → LR α
  | .ok a => .ok a
  | .error e => .error ⟨if e.span.isNone then sp else e.span, k :: e.keys⟩

/-- an outcome of the unlocated description of serde (`visitScalar`, `decodeStrDe`, …) as a visitor's error -/
def liftV {α} : R α → LR α
  | .ok a => .ok a
  | .error _ => vfail

def lmap {α β} (f : α → β) : LR α → LR β
  | .ok a => .ok (f a)
  | .error e => .error e

/-- one more element in front: the FIRST error in reading order is the one returned -/
def lcons {α} : LR α → LR (List α) → LR (List α)
  | .error e, _ => .error e
  | .ok _, .error e => .error e
  | .ok a, .ok l => .ok (a :: l)

/-- `next_element_seed` / `next_value_seed` in a loop -/
def mapL {α β} (f : α → LR β) : List α → LR (List β)
  | [] => .ok []
  | a :: r => lcons (f a) (mapL f r)

/-! ## the spanned tree -/

/-- the tree a deserializer holds: `Item` with the spans the parser recorded -/
abbrev SItem := CItem

/-- `Key::span`: the span of the `repr` -/
def keySpan (k : CKey) : Option Span := k.repr.span

/-- a value without any layout (no parser builds a `scalar` node around a container; the two functions below are total
on such trees all the same, so that no well-formedness hypothesis is needed) -/
def bareItem (v : Val) : CItem := .value (.scalar v .empty {})

def bareKey (k : Bytes) : CKey := { key := k, repr := .empty }

/-- `Item::Table` / `Value::InlineTable` → `TableDeserializer` -/
def citemEntries : CItem → Option (List (CKey × CItem))
  | .table t => some t.items
  | .value (.inl items _ _ _ _ _) => some (items.map fun kv => (kv.1, CItem.value kv.2))
  | .value (.scalar (.inl items _ _) _ _) => some (items.map fun kv => (bareKey kv.1, bareItem kv.2))
  | _ => none

/-- `Value::Array` / `Item::ArrayOfTables` → `ArrayDeserializer` -/
def citemElems : CItem → Option (List CItem)
  | .value (.arr l _ _ _ _) => some (l.map CItem.value)
  | .value (.scalar (.arr l) _ _) => some (l.map bareItem)
  | .aot ts _ => some (ts.map CItem.table)
  | _ => none

/-- what a `MapAccess` hands to `next_value_seed` (`DeTyped.ESrc` with the key) -/
inductive LSrc where
  | item (k : CKey) (it : CItem)
  | str (s : Bytes)

/-- the `visit_map` arms of `ValueDeserializer::deserialize_any` -/
def locMapEntries (it : CItem) : Option (List (Bytes × LSrc)) :=
  match eraseItem it with
  | .value (.dt d) => some [(FIELD, .str (Datetime.Std.display d))]
  | _ => (citemEntries it).map fun es => es.map fun kv => (kv.1.key, LSrc.item kv.1 kv.2)

/-- the span `next_value_seed` falls back to -/
def entrySpan (k : CKey) (v : CItem) : Option Span :=
  match v.span with
  | some s => some s
  | none => keySpan k

/-! ## `toml::Value` as the target: `ValueVisitor` through `ValueDeserializer::deserialize_any` -/

/-- `visitor.next_value::<DatetimeFromString>()` on an entry whose key is the private one -/
def dtFromEntry (k : CKey) (v : CItem) : Option LErr :=
  match presOfItem (eraseItem v) with
  | .string s => if (Datetime.Std.fromStr s).isNone then some ⟨entrySpan k v, [k.key]⟩ else none
  | _ => some ⟨entrySpan k v, [k.key]⟩

def atSpanE (sp : Option Span) (e : LErr) : LErr := if e.span.isNone then ⟨sp, e.keys⟩ else e

def inEntryE (sp : Option Span) (k : Bytes) (e : LErr) : LErr := ⟨if e.span.isNone then sp else e.span, k :: e.keys⟩

mutual
/-- the first error `Value::deserialize(ValueDeserializer::new(Item::Value(v)))` runs into -/
def valueErrVal : CVal → Option LErr
  | .scalar (.dt d) r _ =>
    if (Datetime.Std.fromStr (Datetime.Std.display d)).isNone then some ⟨r.span, []⟩ else none
  | .scalar _ _ _ => none
  | .arr items _ _ _ sp => (valueErrVals items).map (atSpanE sp)
  | .inl items _ _ _ _ sp => (valueErrKvs true items).map (atSpanE sp)
def valueErrVals : List CVal → Option LErr
  | [] => none
  | v :: r =>
    -- `ArraySeqAccess::next_element_seed`: the element's span if none (`valueErrVal` has set it already)
    match valueErrVal v with
    | some e => some (atSpanE v.span e)
    | none => valueErrVals r
/-- `visit_map`: the first key decides between a date-time and a table -/
def valueErrKvs : Bool → List (CKey × CVal) → Option LErr
  | _, [] => none
  | first, (k, v) :: r =>
    if first && k.key == FIELD then dtFromEntry k (.value v)
    else
      match valueErrVal v with
      | some e => some (inEntryE (entrySpan k (.value v)) k.key e)
      | none => valueErrKvs false r
end

mutual
def valueErrItem : CItem → Option LErr
  | .value v => valueErrVal v
  | .table t => valueErrTbl t
  | .aot ts sp => (valueErrTbls ts).map (atSpanE sp)
def valueErrTbl : CTbl → Option LErr
  | .mk items _ _ _ _ sp => (valueErrItems true items).map (atSpanE sp)
def valueErrTbls : List CTbl → Option LErr
  | [] => none
  | t :: r =>
    match valueErrTbl t with
    | some e => some (atSpanE t.span e)
    | none => valueErrTbls r
def valueErrItems : Bool → List (CKey × CItem) → Option LErr
  | _, [] => none
  | first, (k, v) :: r =>
    if first && k.key == FIELD then dtFromEntry k v
    else
      match valueErrItem v with
      | some e => some (inEntryE (entrySpan k v) k.key e)
      | none => valueErrItems false r
end

/-- `toml::Value::deserialize(ValueDeserializer::new(it))`: the value is the one `decodeEdit` gives; the error is the
first one in reading order (a visitor's own error — only "duplicate key", which no parsed table raises — gets the
item's span) -/
def decodeValueLoc (fl : Flavour) (it : CItem) : LR Dec :=
  match visitValue fl false (presOfItem (eraseItem it)) with
  | some v => .ok (.value v)
  | none =>
    match valueErrItem it with
    | some e => .error e
    | none => failAt it.span

/-! ## date-times -/

/-- `Datetime::deserialize(ValueDeserializer::new(it))`: `deserialize_struct(NAME, [FIELD], DatetimeVisitor)` -/
def dtCore (it : CItem) : LR Datetime :=
  match eraseItem it with
  -- a date-time item: `visit_map(DatetimeDeserializer)`, the key and then the printed text through serde's
  -- `StringDeserializer`
  | .value (.dt d) => atSpan it.span (liftV (ofOpt (decodeDatetime (dtMap d))))
  -- anything else: `deserialize_any(DatetimeVisitor)`
  | _ =>
    atSpan it.span
      (match citemEntries it with
       -- `visit_map(TableMapAccess)`: `next_key::<DatetimeKey>()`, then `next_value::<DatetimeFromString>()`
       | some ((k, v) :: _) =>
         if k.key == FIELD then
           inEntry (entrySpan k v) k.key
             (atSpan v.span
               (match presOfItem (eraseItem v) with
                | .string s => liftV (ofOpt (Datetime.Std.fromStr s))
                | _ => vfail))
         else failAt (keySpan k)
       -- "datetime key not found"
       | some [] => vfail
       -- every other `visit_*` of `DatetimeVisitor` is the default "invalid type"
       | none => vfail)

/-- `impl Deserialize for Date` / `Time`: the test of the shape, made after the deserializer returned -/
def shapeCheck (ty : Ty) (d : Datetime) : LR Dec :=
  match ty with
  | .date => if d.date.isSome && d.time.isNone && d.offset.isNone then .ok (.dt d) else vfail
  | .time => if d.date.isNone && d.time.isSome && d.offset.isNone then .ok (.dt d) else vfail
  | _ => .ok (.dt d)

def dtLoc (ty : Ty) (it : CItem) : LR Dec :=
  match dtCore it with
  | .ok d => shapeCheck ty d
  | .error e => .error e

/-! ## derived structs -/

def Fields.dfltOf (k : Bytes) : Fields → Bool
  | .nil => false
  | .cons n _ d r => if n == k then d else dfltOf k r

/-- a derived struct's `visit_map` loop: `next_key_seed(__Field)`; a known field seen before is
`duplicate_field`; a known field is read with its seed (`f` returns `some`), an unknown one as `IgnoredAny`
(`f` returns `none`); the decoded fields in ENTRY order -/
def walkEntries {ε σ} (dup : ε) (known : Bytes → Bool) (f : Bytes → σ → Except ε (Option Dec)) :
    List Bytes → List (Bytes × σ) → Except ε (List (Bytes × Dec))
  | _, [] => .ok []
  | seen, (k, s) :: r =>
    if known k && seen.contains k then .error dup else
    match f k s with
    | .error e => .error e
    | .ok none => walkEntries dup known f seen r
    | .ok (some d) =>
      match walkEntries dup known f (k :: seen) r with
      | .error e => .error e
      | .ok ds => .ok ((k, d) :: ds)

/-- after the loop: every field in declaration order — the decoded one, `Default::default()`, or
`missing_field` -/
def fillFields {ε} (missing : ε) : Fields → List (Bytes × Dec) → Except ε (List (Bytes × Dec))
  | .nil, _ => .ok []
  | .cons name t dflt r, ds =>
    let here : Except ε (Bytes × Dec) :=
      match alookup name ds with
      | some d => .ok (name, d)
      | none =>
        if dflt then .ok (name, .dflt) else
        match missingField t with
        | .ok d => .ok (name, d)
        | .error _ => .error missing
    match here with
    | .error e => .error e
    | .ok x =>
      match fillFields missing r ds with
      | .error e => .error e
      | .ok l => .ok (x :: l)

/-- `validate_struct_keys`: the first key that is no field -/
def firstExtraKey (fs : Fields) : List (CKey × CItem) → Option CKey
  | [] => none
  | (k, _) :: r => if fs.hasName k.key then firstExtraKey fs r else some k

/-- `tuple_variant` on a table: the first key that does not parse to its index -/
def firstBadIndex : Nat → List (CKey × CItem) → Option CKey
  | _, [] => none
  | i, (k, _) :: r => if parseUsize k.key == some i then firstBadIndex (i + 1) r else some k

/-! ## `TySeed(ty).deserialize(ValueDeserializer::new(item))` with the error located -/

mutual
def decodeLoc (fl : Flavour) : Ty → CItem → LR Dec
  -- `deserialize_bool` … `deserialize_unit`: forwarded to `deserialize_any`, whose `map_err` sets the item's span
  | .bool, it => atSpan it.span (liftV (visitScalar .bool (presOfItem (eraseItem it))))
  | .int lo hi, it => atSpan it.span (liftV (visitScalar (.int lo hi) (presOfItem (eraseItem it))))
  | .f64, it => atSpan it.span (liftV (visitScalar .f64 (presOfItem (eraseItem it))))
  | .f32, it => atSpan it.span (liftV (visitScalar .f32 (presOfItem (eraseItem it))))
  | .string, it => atSpan it.span (liftV (visitScalar .string (presOfItem (eraseItem it))))
  | .char, it => atSpan it.span (liftV (visitScalar .char (presOfItem (eraseItem it))))
  | .unit, it => atSpan it.span (liftV (visitScalar .unit (presOfItem (eraseItem it))))
  | .datetime, it => dtLoc .datetime it
  | .date, it => dtLoc .date it
  | .time, it => dtLoc .time it
  | .value, it => decodeValueLoc fl it
  | .ignored, _ => .ok .ignored
  -- `deserialize_option`: `visitor.visit_some(self)` under the `map_err`
  | .option t, it => atSpan it.span (lmap .some (decodeLoc fl t it))
  -- `deserialize_newtype_struct`
  | .newtype t, it => atSpan it.span (lmap .newtype (decodeLoc fl t it))
  -- `deserialize_seq` → `deserialize_any` → `visit_seq(ArraySeqAccess)`: an element's error gets the element's span
  | .seq t, it =>
    atSpan it.span
      (match citemElems it with
       | some l => lmap .seq (mapL (fun i => atSpan i.span (decodeLoc fl t i)) l)
       | none => vfail)
  | .tuple ts, it =>
    atSpan it.span
      (match citemElems it with
       | some l => lmap .tuple (decodeLocTys fl ts l)
       | none => vfail)
  -- `deserialize_map` → `deserialize_any` → `visit_map`
  | .map t, it =>
    atSpan it.span
      (match locMapEntries it with
       | some es =>
         lmap (fun ds => .map (collectSorted [] ds)) (mapL (fun kv : Bytes × LSrc =>
           lmap (fun d => (kv.1, d))
             (match kv.2 with
              | .item k i => inEntry (entrySpan k i) k.key (decodeLoc fl t i)
              | .str s => liftV (decodeStrDe t s))) es)
       | none => vfail)
  -- `deserialize_struct("S", FIELDS, visitor)`: no key validation, `deserialize_any`
  | .struct fs, it =>
    atSpan it.span
      (match locMapEntries it with
       | some es =>
         (match walkEntries visitorErr fs.hasName (fun k src => decodeLocEntry fl fs k src) [] es with
          | .error e => .error e
          | .ok ds => lmap .struct (fillFields visitorErr fs ds))
       | none =>
         match citemElems it with
         | some l => lmap .struct (decodeLocFieldsSeq fl fs l)
         | none => vfail)
  -- `deserialize_enum`
  | .enum vs, it =>
    atSpan it.span
      (match eraseItem it with
       | .value (.str s) => liftV (unitOnlyVariant vs s)
       | _ =>
         match citemEntries it with
         -- `TableDeserializer::deserialize_enum` → `visit_enum(TableMapAccess)`
         | some [(k, payload)] => decodeLocVariants fl vs k payload
         -- "wanted exactly 1 element": the table's span
         | some _ => failAt it.span
         -- "wanted string or table"
         | none => failAt it.span)
/-- a tuple visitor's `visit_seq` (every element through `ArraySeqAccess::next_element_seed`) -/
def decodeLocTys (fl : Flavour) : Tys → List CItem → LR (List Dec)
  | .nil, _ => .ok []
  | .cons _ _, [] => vfail
  | .cons t r, i :: l => lcons (atSpan i.span (decodeLoc fl t i)) (decodeLocTys fl r l)
/-- one entry of a derived struct's `visit_map`: the `__Field` of the key, then `next_value_seed` with the field's
seed (`some`) or `IgnoredAny` (`none`) -/
def decodeLocEntry (fl : Flavour) : Fields → Bytes → LSrc → LR (Option Dec)
  | .nil, _, _ => .ok none
  | .cons name t _ r, k, src =>
    if name == k then
      lmap some
        (match src with
         | .item key i => inEntry (entrySpan key i) key.key (decodeLoc fl t i)
         | .str s => liftV (decodeStrDe t s))
    else decodeLocEntry fl r k src
/-- a derived struct's `visit_seq` -/
def decodeLocFieldsSeq (fl : Flavour) : Fields → List CItem → LR (List (Bytes × Dec))
  | .nil, _ => .ok []
  | .cons name _ dflt r, [] =>
    if dflt then lmap (fun ds => (name, Dec.dflt) :: ds) (decodeLocFieldsSeq fl r []) else vfail
  | .cons name t _ r, i :: l =>
    lcons (lmap (fun d => (name, d)) (atSpan i.span (decodeLoc fl t i))) (decodeLocFieldsSeq fl r l)
/-- `TableMapAccess::variant_seed`: `unknown_variant` gets the key's span; the payload is NOT under an `add_key` -/
def decodeLocVariants (fl : Flavour) : Variants → CKey → CItem → LR Dec
  | .nil, k, _ => failAt (keySpan k)
  | .cons name s r, k, p => if name == k.key then decodeLocShape fl s name p else decodeLocVariants fl r k p
/-- `TableEnumDeserializer` -/
def decodeLocShape (fl : Flavour) : Shape → Bytes → CItem → LR Dec
  | .unit, n, p =>
    match citemElems p with
    | some l => if l.isEmpty then .ok (.vUnit n) else failAt p.span
    | none =>
      match citemEntries p with
      | some es => if es.isEmpty then .ok (.vUnit n) else failAt p.span
      | none => failAt p.span
  | .newtype t, n, p => lmap (.vNewtype n) (decodeLoc fl t p)
  | .tuple ts, n, p =>
    match citemElems p with
    | some l =>
      if l.length == ts.length then lmap (.vTuple n) (decodeLocTys fl ts l) else failAt p.span
    | none =>
      match citemEntries p with
      | some es =>
        (match firstBadIndex 0 es with
         | some k => failAt (keySpan k)
         | none =>
           if es.length == ts.length then lmap (.vTuple n) (decodeLocTys fl ts (es.map Prod.snd)) else failAt p.span)
      | none => failAt p.span
  -- `ValueDeserializer::new(value).with_struct_key_validation().deserialize_struct("", fields, visitor)`
  | .struct fs, n, p =>
    match (citemEntries p).bind (firstExtraKey fs) with
    | some k => atSpan p.span (failAt (keySpan k))
    | none =>
      atSpan p.span
        (match locMapEntries p with
         | some es =>
           (match walkEntries visitorErr fs.hasName (fun k src => decodeLocEntry fl fs k src) [] es with
            | .error e => .error e
            | .ok ds => lmap (.vStruct n) (fillFields visitorErr fs ds))
         | none =>
           match citemElems p with
           | some l => lmap (.vStruct n) (decodeLocFieldsSeq fl fs l)
           | none => vfail)
end

/-! ## the routes -/

/-- `Key::despan` -/
def despanKey (k : CKey) : CKey := { key := k.key, repr := .empty }

mutual
/-- `despan`: every span of the tree becomes `None` (what a `DocumentMut` holds). In the code decor, `trailing` and
`preamble` become explicit strings (no span either); `Raw` has no such form and no deserializer reads them: they are
dropped here. -/
def despanVal : CVal → CVal
  | .scalar v _ _ => .scalar v .empty {}
  | .arr items _ c _ _ => .arr (despanVals items) .empty c {} none
  | .inl items _ i dt _ _ => .inl (despanKvs items) .empty i dt {} none
def despanVals : List CVal → List CVal
  | [] => []
  | v :: r => despanVal v :: despanVals r
def despanKvs : List (CKey × CVal) → List (CKey × CVal)
  | [] => []
  | (k, v) :: r => (despanKey k, despanVal v) :: despanKvs r
end

mutual
def despanItem : CItem → CItem
  | .value v => .value (despanVal v)
  | .table t => .table (despanTbl t)
  | .aot ts _ => .aot (despanTbls ts) none
def despanTbl : CTbl → CTbl
  | .mk items i d p _ _ => .mk (despanItems items) i d p {} none
def despanTbls : List CTbl → List CTbl
  | [] => []
  | t :: r => despanTbl t :: despanTbls r
def despanItems : List (CKey × CItem) → List (CKey × CItem)
  | [] => []
  | (k, v) :: r => (despanKey k, despanItem v) :: despanItems r
end

/-- `toml::from_str` / `toml::de::Deserializer` / `toml_edit::de::from_str` / `Deserializer::parse`: the root table with
the spans of the parse (the wrappers only `set_raw`) -/
def sourceRoute (fl : Flavour) (ty : Ty) (text : Bytes) : Option (LR Dec) :=
  (parseCst text).map fun d => decodeLoc fl ty (.table d.root)

/-- `toml_edit::de::from_document(DocumentMut)` / `Deserializer::from(DocumentMut)`: the same tree despanned -/
def documentRoute (fl : Flavour) (ty : Ty) (text : Bytes) : Option (LR Dec) :=
  (parseCst text).map fun d => decodeLoc fl ty (despanItem (.table d.root))

end TomlVerif.Model.DeLocated
