import TomlVerif.Spec.Utf8
/-! Model of `crates/toml_edit/src/error.rs` (`translate_position`, the index arithmetic of
    `Display for TomlError`) and of winnow's `ParseError::char_span` (`char_boundary`). -/
namespace TomlVerif.Model.ErrorPos
open TomlVerif TomlVerif.Spec

/-- `is_utf8_char_boundary`: not a continuation byte -/
def isCharStart (b : Byte) : Bool := !Utf8.isCont b

/-- number of characters = number of non-continuation bytes (on valid UTF-8) -/
def charCount (s : Bytes) : Nat := (s.filter isCharStart).length

/-- index just after the last LF of `s` (0 if none) -/
def lineStartOf (s : Bytes) : Nat :=
  match s.reverse.findIdx? (· == 0x0A) with
  | some k => s.length - k
  | none => 0

/-- `translate_position(input, index)` → (line, column), both 0-based -/
def translatePosition (input : Bytes) (index : Nat) : Nat × Nat :=
  if input.isEmpty then (0, index) else
  let safe := min index (input.length - 1)
  let off := index - safe
  let lineStart := lineStartOf (input.take safe)
  let line := ((input.take lineStart).filter (· == 0x0A)).length
  let e := min (safe + off) input.length
  let slice := (input.take e).drop lineStart
  let column := if Utf8.valid slice then charCount slice else e - lineStart
  (line, column + (safe + off - e))

/-- winnow `char_boundary(input, offset)` -/
def charSpan (input : Bytes) (offset : Nat) : Nat × Nat :=
  let len := input.length
  if offset == len then (offset, offset) else
  let upper := min (offset + 1) len
  let start := ((List.range upper).reverse.find? fun i => match input[i]? with | some b => isCharStart b | none => false).getD 0
  let «end» := ((List.range' (offset + 1) (len - (offset + 1))).find? fun i => match input[i]? with | some b => isCharStart b | none => false).getD len
  (start, «end»)

/-- the pieces `Display for TomlError` computes from (raw, span); `none` models a panic
    (`nth(line).expect`, or `span.end - span.start` underflow with overflow checks) -/
def displayIndices (raw : Bytes) (spanStart spanEnd : Nat) : Option (Nat × Nat × Nat) :=
  let (line, column) := translatePosition raw spanStart
  let nLines := (raw.filter (· == 0x0A)).length + 1
  if line ≥ nLines then none
  else if spanEnd < spanStart then none
  else some (line + 1, column + 1, spanEnd - spanStart)

end TomlVerif.Model.ErrorPos
