import TomlVerif.Model.DeRoutes
import TomlVerif.Model.Doc
/-! The text decoding routes `toml::from_str::<toml::Value>` / `from_str::<toml::Table>` on the model: the document
    parser (`Model/Doc.lean`), what `toml_edit`'s deserializers present for the parsed tree, then the visitors of
    `Model/DeRoutes.lean`.

    `presOfVal` / `presOfItem` / `presOfTbl` / `decodeValue` / `decodeTable` are the functions of the same names in
    `Driver/C13.lean`, written by structural recursion (there they are `partial def`s over `List.map`, which
    makes them opaque to proofs). `Props/C17RoundTrip.lean` is about these. -/
namespace TomlVerif.Model.DeText
open TomlVerif TomlVerif.Model TomlVerif.Model.TomlValue TomlVerif.Model.DeRoutes

/-! ## what `toml_edit`'s deserializers show for a parsed tree -/

mutual
def presOfVal : Val → Pres
  | .str s => .string s
  | .int n => .i64 n
  | .float b => .f64 b
  | .bool b => .bool b
  | .dt d => dtMap d
  | .arr l => .seq (presOfVals l)
  | .inl items _ _ => .map (presOfValPairs items)
def presOfVals : List Val → List Pres
  | [] => []
  | v :: r => presOfVal v :: presOfVals r
def presOfValPairs : List (Bytes × Val) → List (Bytes × Pres)
  | [] => []
  | (k, v) :: r => (k, presOfVal v) :: presOfValPairs r
end

mutual
def presOfItem : Item → Pres
  | .value v => presOfVal v
  | .table t => presOfTbl t
  | .aot ts => .seq (presOfTbls ts)
def presOfTbl : Tbl → Pres
  | .mk items _ _ _ => .map (presOfItems items)
def presOfTbls : List Tbl → List Pres
  | [] => []
  | t :: r => presOfTbl t :: presOfTbls r
def presOfItems : List (Bytes × Item) → List (Bytes × Pres)
  | [] => []
  | (k, i) :: r => (k, presOfItem i) :: presOfItems r
end

/-- decode a text the way `toml::from_str::<toml::Value>` does (`Driver/C13.lean` `decodeValue`, with the total
    `presOfTbl`) -/
def decodeValue (fl : Flavour) (text : Bytes) : Option TV :=
  match Doc.parseDocument text with
  | some t => visitValue fl false (presOfTbl t)
  | none => none

/-- `toml::from_str::<toml::Table>` -/
def decodeTable (fl : Flavour) (text : Bytes) : Option (List (Bytes × TV)) :=
  match Doc.parseDocument text with
  | some t => visitTable fl false (presOfTbl t)
  | none => none

def noFloat : FloatText := fun _ => []

end TomlVerif.Model.DeText
