import TomlVerif.Spec.SerdeData
/-! Model of the serde serializers.

    * `serValue`, `serSeq`, `serFields`, `serMap`, `serKey`, `serDatetime`
        — `crates/toml_edit/src/ser/{value,array,map,key}.rs`
          (`ValueSerializer`, `SerializeValueArray`, `SerializeInlineTable` as map and as struct with
          its `MapValueSerializer`, `SerializeVariant`, `KeySerializer`, `SerializeDatetime` with its
          `DatetimeFieldSerializer`)
    * `serDocument` — `toml_edit::ser::to_document` (`ser/mod.rs`)
    * `tomlDocument` — the root dispatch of `toml::ser::Serializer` + `write_document` (`toml/src/ser.rs`)
    * `valSer`, `valSeq`, `valFields`, `valMap`, `tableSer` — `toml::Value::try_from`,
      `toml::Table::try_from` (`toml/src/value.rs`: `ValueSerializer`, `ValueSerializeVec`,
      `SerializeMap`, `ValueSerializeVariant`, `TableSerializer`)
    * `visitItem` … `visitRoot` — the two formatting visitors, `toml/src/fmt.rs: DocumentFormatter`
      (`guard = true`: conversions stop below a value) and `toml_edit/src/ser/pretty.rs: Pretty`
      (`guard = false`: `make_item` on every item), on top of `visit_mut.rs` and
      `item.rs: make_item / into_table / into_array_of_tables`
    * `shownRoot` — what `impl Display for DocumentMut` (`encode.rs`) prints, read back as plain data:
      a standard table prints the values `get_values()` returns, its header unless it is implicit
      without values, then its sub-tables; an inline table prints only `Item::Value` children;
      an array prints only `Item::Value` elements. -/
namespace TomlVerif.Model.Ser
open TomlVerif TomlVerif.Model TomlVerif.Spec TomlVerif.Spec.Serde

/-- `toml_edit::ser::Error` without payloads -/
inductive SerErr where
  | unsupportedType
  | outOfRange
  | unsupportedNone
  | keyNotString
  | dateInvalid
  | custom
  deriving Repr, DecidableEq

/-- `KeySerializer` -/
def serKey : SVal → Except SerErr Bytes
  | .str s => .ok s
  | .unitVariant _ v => .ok v
  | .newtype _ v => serKey v
  | .int w _ => if is128 w then .error .custom else .error .keyNotString   -- `KeySerializer` has no `serialize_i128/u128`: serde's default
  | _ => .error .keyNotString

/-- `SerializeDatetime::serialize_field` over the fields, then `end` -/
def serDatetime : List (Bytes × SVal) → Option Datetime.Datetime → Except SerErr Datetime.Datetime
  | [], acc => match acc with | some d => .ok d | none => .error .unsupportedNone
  | (k, v) :: r, acc =>
    if k == dtField then
      match v with
      | .str s =>
        match Datetime.Std.fromStr s with
        | some d => serDatetime r (some d)
        | none => .error .custom
      | .int w _ => if is128 w then .error .custom else .error .dateInvalid   -- serde's default `serialize_i128/u128`
      | _ => .error .dateInvalid
    else serDatetime r acc

mutual
/-- `value.serialize(ValueSerializer::new())` -/
def serValue : SVal → Except SerErr V
  | .bool b => .ok (.sc (.bool b))
  | .int w n =>
    if is128 w then .error .custom                 -- serde's default `serialize_i128`
    else if w == .u64 && n > i64Max then .error .outOfRange
    else .ok (.sc (.int n))
  | .f32 b => .ok (.sc (.float (clearNanSign (f32to64 b))))
  | .f64 b => .ok (.sc (.float (clearNanSign b)))
  | .char cp => .ok (.sc (.str (Utf8.encode cp)))
  | .str s => .ok (.sc (.str s))
  | .bytes b => .ok (.arr (intsOfBytes b))
  | .none => .error .unsupportedNone
  | .some v => serValue v
  | .unit => .error .unsupportedType
  | .unitStruct _ => .error .unsupportedType
  | .newtype _ v => serValue v
  | .seq xs => match serSeq xs with | .ok l => .ok (.arr l) | .error e => .error e
  | .tuple xs => match serSeq xs with | .ok l => .ok (.arr l) | .error e => .error e
  | .tupleStruct _ xs => match serSeq xs with | .ok l => .ok (.arr l) | .error e => .error e
  | .map kvs => match serMap kvs [] with | .ok l => .ok (.inl l) | .error e => .error e
  | .struct name fields =>
    if name == dtName then
      match serDatetime fields none with
      | .ok d => .ok (.sc (.dt d))
      | .error e => .error e
    else match serFields fields [] with | .ok l => .ok (.inl l) | .error e => .error e
  | .unitVariant _ variant => .ok (.sc (.str variant))
  | .newtypeVariant _ variant v =>
    match serValue v with | .ok x => .ok (.inl [(variant, x)]) | .error e => .error e
  | .tupleVariant _ variant xs =>
    match serSeq xs with | .ok l => .ok (.inl [(variant, .arr l)]) | .error e => .error e
  | .structVariant _ variant fields =>
    match serFields fields [] with | .ok l => .ok (.inl [(variant, .inl l)]) | .error e => .error e
/-- `SerializeValueArray::serialize_element` for each element -/
def serSeq : List SVal → Except SerErr (List V)
  | [] => .ok []
  | x :: r =>
    match serValue x with
    | .error e => .error e
    | .ok v => match serSeq r with | .ok l => .ok (v :: l) | .error e => .error e
/-- `SerializeInlineTable as SerializeStruct`: `serialize_field` for each field. The value goes
    through `MapValueSerializer`, whose `is_none` is set exactly by a direct `serialize_none`. -/
def serFields : List (Bytes × SVal) → List (Bytes × V) → Except SerErr (List (Bytes × V))
  | [], acc => .ok acc
  | (k, v) :: r, acc =>
    match v with
    | .none => serFields r acc
    | v =>
      match serValue v with
      | .error e => .error e
      | .ok x => serFields r (aset k x acc)
/-- `SerializeInlineTable as SerializeMap`: `serialize_key` then `serialize_value` per entry -/
def serMap : List (SVal × SVal) → List (Bytes × V) → Except SerErr (List (Bytes × V))
  | [], acc => .ok acc
  | (k, v) :: r, acc =>
    match serKey k with
    | .error e => .error e
    | .ok key =>
      match v with
      | .none => serMap r acc
      | v =>
        match serValue v with
        | .error e => .error e
        | .ok x => serMap r (aset key x acc)
end

/-- `toml_edit::ser::to_document`: the value must come out as an inline table -/
def serDocument (v : SVal) : Except SerErr (List (Bytes × V)) :=
  match serValue v with
  | .error e => .error e
  | .ok (.inl kvs) => .ok kvs
  | .ok _ => .error .unsupportedType

/-- `toml::ser::Serializer`: every method hands the value to `toml_edit`'s `ValueSerializer` and
    `write_document` demands a table — except `serialize_struct`, which ignores the name (so the
    date-time struct is an ordinary struct here; `byName = true` describes the serializer once it
    passes the name on), `serialize_tuple_variant`, which builds a bare array, and
    `serialize_struct_variant`, which refuses. -/
def tomlDocument (byName : Bool) (v : SVal) : Except SerErr (List (Bytes × V)) :=
  match v with
  | .structVariant _ _ _ => .error .unsupportedType
  | .tupleVariant _ _ xs =>
    match serSeq xs with
    | .error e => .error e
    | .ok _ => .error .unsupportedType
  | .struct name fields => if byName then serDocument (.struct name fields) else serFields fields []
  | v => serDocument v

/-! ### `toml::Value::try_from` / `toml::Table::try_from` -/

/-- the two places where `toml/src/value.rs` departs from `toml_edit::ser`, as switches:
    `strictNone = false`: ANY `UnsupportedNone` coming out of an entry's value drops the entry
    (the code as it stands); `true`: only an entry that is `None` itself is dropped.
    `dtAware = false`: `serialize_struct` ignores the name, the date-time struct is an ordinary
    struct; `true`: `ValueSerializeMap::end` of a struct named `NAME` looks `FIELD` up in the
    finished table and parses a string found there (`TableSerializer` keeps ignoring the name). -/
structure ValFix where
  strictNone : Bool
  dtAware : Bool

/-- `toml/src/value.rs` before commit 6209b98 -/
def ValFix.original : ValFix := ⟨false, false⟩
/-- `toml/src/value.rs` as it stands (date-times recognised since 6209b98, F16 open) -/
def ValFix.current : ValFix := ⟨false, true⟩

/-- `ValueSerializeMap::end` with `datetime` set:
    `if let Some(Value::String(s)) = map.get(FIELD) { return s.parse()… }`, else the table -/
def valDatetime (l : List (Bytes × V)) : Except SerErr V :=
  match alookup dtField l with
  | some (.sc (.str s)) =>
    (match Datetime.Std.fromStr s with
     | some d => .ok (.sc (.dt d))
     | none => .error .custom)
  | _ => .ok (.inl l)

/-- `Value::String(s) => Some(s)` -/
def strOfV : V → Option Bytes
  | .sc (.str s) => some s
  | _ => none

mutual
/-- `value.serialize(toml::value::ValueSerializer)` -/
def valSer (fx : ValFix) : SVal → Except SerErr V
  | .bool b => .ok (.sc (.bool b))
  | .int w n =>
    if is128 w then .error .custom
    else if w == .u64 && n > i64Max then .error .custom      -- "u64 value was too large"
    else .ok (.sc (.int n))
  | .f32 b => .ok (.sc (.float (clearNanSign (f32to64 b))))
  | .f64 b => .ok (.sc (.float (clearNanSign b)))
  | .char cp => .ok (.sc (.str (Utf8.encode cp)))
  | .str s => .ok (.sc (.str s))
  | .bytes b => .ok (.arr (intsOfBytes b))
  | .none => .error .unsupportedNone
  | .some v => valSer fx v
  | .unit => .error .unsupportedType
  | .unitStruct _ => .error .unsupportedType
  | .newtype _ v => valSer fx v
  | .seq xs => match valSeq fx xs with | .ok l => .ok (.arr l) | .error e => .error e
  | .tuple xs => match valSeq fx xs with | .ok l => .ok (.arr l) | .error e => .error e
  | .tupleStruct _ xs => match valSeq fx xs with | .ok l => .ok (.arr l) | .error e => .error e
  | .map kvs => match valMap fx kvs [] with | .ok l => .ok (.inl l) | .error e => .error e
  | .struct name fields =>
    match valFields fx fields [] with
    | .error e => .error e
    | .ok l => if fx.dtAware && name == dtName then valDatetime l else .ok (.inl l)
  | .unitVariant _ variant => .ok (.sc (.str variant))
  | .newtypeVariant _ variant v =>
    match valSer fx v with | .ok x => .ok (.inl [(variant, x)]) | .error e => .error e
  | .tupleVariant _ variant xs =>
    match valSeq fx xs with | .ok l => .ok (.inl [(variant, .arr l)]) | .error e => .error e
  | .structVariant _ variant fields =>
    match valFields fx fields [] with | .ok l => .ok (.inl [(variant, .inl l)]) | .error e => .error e
def valSeq (fx : ValFix) : List SVal → Except SerErr (List V)
  | [] => .ok []
  | x :: r =>
    match valSer fx x with
    | .error e => .error e
    | .ok v => match valSeq fx r with | .ok l => .ok (v :: l) | .error e => .error e
/-- `SerializeMap::serialize_value` behind `serialize_field` -/
def valFields (fx : ValFix) : List (Bytes × SVal) → List (Bytes × V) → Except SerErr (List (Bytes × V))
  | [], acc => .ok acc
  | (k, v) :: r, acc =>
    match v with
    | .none => valFields fx r acc
    | v =>
      match valSer fx v with
      | .error .unsupportedNone => if fx.strictNone then .error .unsupportedNone else valFields fx r acc
      | .error e => .error e
      | .ok x => valFields fx r (aset k x acc)
/-- `SerializeMap::serialize_key`: the key must serialize to a `Value::String` -/
def valMap (fx : ValFix) : List (SVal × SVal) → List (Bytes × V) → Except SerErr (List (Bytes × V))
  | [], acc => .ok acc
  | (k, v) :: r, acc =>
    match valSer fx k with
    | .error e => .error e
    | .ok kv =>
      match strOfV kv with
      | none => .error .keyNotString
      | some key =>
        match v with
        | .none => valMap fx r acc
        | v =>
          match valSer fx v with
          | .error .unsupportedNone => if fx.strictNone then .error .unsupportedNone else valMap fx r acc
          | .error e => .error e
          | .ok x => valMap fx r (aset key x acc)
end

/-- `value.serialize(toml::value::TableSerializer)`. `refuseDt = false` is the code as it stands:
    `serialize_struct` ignores the name, so a bare date-time comes out as the private one-field
    table; `true`: the date-time struct is refused like every other non-table root. -/
def tableSer (fx : ValFix) (refuseDt : Bool) : SVal → Except SerErr (List (Bytes × V))
  | .some v => tableSer fx refuseDt v
  | .newtype _ v => tableSer fx refuseDt v
  | .newtypeVariant _ variant v =>
    match valSer fx v with | .ok x => .ok [(variant, x)] | .error e => .error e
  | .map kvs => valMap fx kvs []
  | .struct name fields =>
    if refuseDt && name == dtName then .error .unsupportedType else valFields fx fields []
  | .none => .error .unsupportedNone
  | .int w _ => if is128 w then .error .custom else .error .unsupportedType
  | _ => .error .unsupportedType

/-! ### document trees and the formatting visitors -/

/-- `toml_edit::Item` / `Value` after a visitor ran: values, standard tables (with their
    `implicit` flag), arrays of tables. An inline table or an array holds `Item`s, so after a
    conversion below a value it can hold a standard table. -/
inductive Node where
  | sc (s : Scalar)
  | arr (xs : List Node)
  | inl (kvs : List (Bytes × Node))
  | tbl (kvs : List (Bytes × Node)) (implicit : Bool)
  | aot (ts : List Node)

def isInl : V → Bool
  | .inl _ => true
  | _ => false

/-- `a.iter().all(|v| v.is_inline_table())` -/
def allInl : List V → Bool
  | [] => true
  | x :: r => isInl x && allInl r

mutual
/-- `visit_item_mut` on `Item::Value(v)`. `isv` = the visitor's `is_value`. The conversion
    (`make_item`: inline table → table, non-empty array of inline tables → array of tables) runs
    unless the guard is on and the parent is a value. -/
def visitItem (guard isv : Bool) : V → Node
  | .sc s => .sc s
  | .inl kvs =>
    if guard && isv then .inl (visitKVs guard true kvs)
    else .tbl (visitKVs guard false kvs) (!kvs.isEmpty)
  | .arr xs =>
    if !(guard && isv) && !xs.isEmpty && allInl xs then .aot (visitAot guard xs)
    else .arr (visitArr guard xs)
/-- `visit_array_mut`: `visit_value_mut` on every element -/
def visitArr (guard : Bool) : List V → List Node
  | [] => []
  | x :: r => visitValue guard x :: visitArr guard r
/-- `visit_value_mut` (below a value) -/
def visitValue (guard : Bool) : V → Node
  | .sc s => .sc s
  | .arr xs => .arr (visitArr guard xs)
  | .inl kvs => .inl (visitKVs guard true kvs)
/-- `visit_table_like_mut`: `visit_item_mut` on every entry -/
def visitKVs (guard isv : Bool) : List (Bytes × V) → List (Bytes × Node)
  | [] => []
  | (k, v) :: r => (k, visitItem guard isv v) :: visitKVs guard isv r
/-- elements of an array turned into an array of tables: `make_item` then `visit_table_mut` -/
def visitAot (guard : Bool) : List V → List Node
  | [] => []
  | .inl kvs :: r => .tbl (visitKVs guard false kvs) (!kvs.isEmpty) :: visitAot guard r
  | x :: r => visitValue guard x :: visitAot guard r
end

/-- `visit_table_mut` on the document root -/
def visitRoot (guard : Bool) (kvs : List (Bytes × V)) : List (Bytes × Node) := visitKVs guard false kvs

mutual
/-- a document tree as the serializer leaves it (no visitor): every item is a value -/
def embed : V → Node
  | .sc s => .sc s
  | .arr xs => .arr (embedList xs)
  | .inl kvs => .inl (embedKVs kvs)
def embedList : List V → List Node
  | [] => []
  | x :: r => embed x :: embedList r
def embedKVs : List (Bytes × V) → List (Bytes × Node)
  | [] => []
  | (k, v) :: r => (k, embed v) :: embedKVs r
end

def isValue : Node → Bool
  | .tbl _ _ => false
  | .aot _ => false
  | _ => true

mutual
/-- does the text define anything under this item's key? a standard table does when its header
    is printed (not implicit, or it has values) or something below it is -/
def present : Node → Bool
  | .tbl kvs implicit => !implicit || presentAny kvs
  | .aot ts => !ts.isEmpty
  | _ => true
def presentAny : List (Bytes × Node) → Bool
  | [] => false
  | (_, n) :: r => present n || presentAny r
end

mutual
/-- entries of a standard table as the text shows them -/
def shownTbl : List (Bytes × Node) → List (Bytes × V)
  | [] => []
  | (k, n) :: r =>
    match n with
    | .tbl kvs implicit =>
      if present (.tbl kvs implicit) then (k, .inl (shownTbl kvs)) :: shownTbl r else shownTbl r
    | .aot ts => if ts.isEmpty then shownTbl r else (k, .arr (shownAot ts)) :: shownTbl r
    | .sc s => (k, .sc s) :: shownTbl r
    | .arr xs => (k, .arr (shownArr xs)) :: shownTbl r
    | .inl kvs => (k, .inl (shownInl kvs)) :: shownTbl r
/-- `encode_array`: `Array::iter` yields the `Item::Value` elements only -/
def shownArr : List Node → List V
  | [] => []
  | n :: r =>
    match n with
    | .sc s => .sc s :: shownArr r
    | .arr xs => .arr (shownArr xs) :: shownArr r
    | .inl kvs => .inl (shownInl kvs) :: shownArr r
    | .tbl _ _ => shownArr r
    | .aot _ => shownArr r
/-- `encode_table`: `InlineTable::get_values` yields the `Item::Value` entries only -/
def shownInl : List (Bytes × Node) → List (Bytes × V)
  | [] => []
  | (k, n) :: r =>
    match n with
    | .sc s => (k, .sc s) :: shownInl r
    | .arr xs => (k, .arr (shownArr xs)) :: shownInl r
    | .inl kvs => (k, .inl (shownInl kvs)) :: shownInl r
    | .tbl _ _ => shownInl r
    | .aot _ => shownInl r
/-- `[[header]]` for every table of an array of tables -/
def shownAot : List Node → List V
  | [] => []
  | n :: r =>
    match n with
    | .tbl kvs _ => .inl (shownTbl kvs) :: shownAot r
    | _ => shownAot r
end

/-- the printed document read back -/
def shownRoot (kvs : List (Bytes × Node)) : List (Bytes × V) := shownTbl kvs

/-! ### the routes -/

/-- `toml::to_string` and `toml::to_string_pretty` (they differ in array layout only) -/
def routeToml (byName : Bool) (v : SVal) : Except SerErr (List (Bytes × V)) :=
  match tomlDocument byName v with
  | .ok kvs => .ok (shownRoot (visitRoot true kvs))
  | .error e => .error e

/-- `toml_edit::ser::to_string` -/
def routeEdit (v : SVal) : Except SerErr (List (Bytes × V)) :=
  match serDocument v with
  | .ok kvs => .ok (shownRoot (embedKVs kvs))
  | .error e => .error e

/-- `toml_edit::ser::to_string_pretty`; `guard = false` is the code as it stands -/
def routeEditPretty (guard : Bool) (v : SVal) : Except SerErr (List (Bytes × V)) :=
  match serDocument v with
  | .ok kvs => .ok (shownRoot (visitRoot guard kvs))
  | .error e => .error e

end TomlVerif.Model.Ser
