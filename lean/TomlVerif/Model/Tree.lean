import TomlVerif.Model.Datetime
/-! Decoded tree of a document as `toml_edit` holds it: values, tables with their
    `implicit` / `dotted` flags and document position, arrays of tables. Keys are the decoded
    key text (the code compares `Key`s by their decoded text only). -/
namespace TomlVerif.Model
open TomlVerif

inductive Val where
  | str (s : Bytes)
  | int (n : Int)
  | float (bits : Nat)
  | bool (b : Bool)
  | dt (d : Datetime.Datetime)
  | arr (items : List Val)
  | inl (items : List (Bytes × Val)) (implicit dotted : Bool)

mutual
inductive Item where
  | value (v : Val)
  | table (t : Tbl)
  | aot (ts : List Tbl)
inductive Tbl where
  | mk (items : List (Bytes × Item)) (implicit dotted : Bool) (pos : Option Nat)
end

namespace Tbl
def items : Tbl → List (Bytes × Item) | mk i _ _ _ => i
def implicit : Tbl → Bool | mk _ i _ _ => i
def dotted : Tbl → Bool | mk _ _ d _ => d
def pos : Tbl → Option Nat | mk _ _ _ p => p
def empty : Tbl := mk [] false false none
def setItems (t : Tbl) (i : List (Bytes × Item)) : Tbl := mk i t.implicit t.dotted t.pos
end Tbl

/-- association-list helpers with `IndexMap` behaviour: lookup by key, replace in place, append new, erase in place -/
def alookup {α} (k : Bytes) : List (Bytes × α) → Option α
  | [] => none
  | (k', v) :: r => if k' == k then some v else alookup k r

def areplace {α} (k : Bytes) (v : α) : List (Bytes × α) → List (Bytes × α)
  | [] => []
  | (k', v') :: r => if k' == k then (k', v) :: r else (k', v') :: areplace k v r

/-- insert-or-replace keeping the position of an existing key (`IndexMap::insert`) -/
def aset {α} (k : Bytes) (v : α) (l : List (Bytes × α)) : List (Bytes × α) :=
  match alookup k l with
  | some _ => areplace k v l
  | none => l ++ [(k, v)]

def aerase {α} (k : Bytes) : List (Bytes × α) → List (Bytes × α)
  | [] => []
  | (k', v') :: r => if k' == k then r else (k', v') :: aerase k r

end TomlVerif.Model
