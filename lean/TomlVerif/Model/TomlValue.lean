import TomlVerif.Model.Tree
import TomlVerif.Model.Write
import TomlVerif.Model.Numbers
/-! Model of `toml::Value` / `toml::Table` and of `toml::to_string` / `to_string_pretty` on them:

  * `crates/toml/src/value.rs`  `impl Serialize for Value` — the three passes over a table
    (`pass1`: neither table nor array, or an array holding no table; `pass2`: arrays holding a table;
    `pass3`: tables), applied at every table of the tree (`norm`);
  * `crates/toml_edit/src/ser/*` building a `toml_edit::Value` (inline tables, arrays) in that order;
  * `crates/toml/src/ser.rs` `write_document` + `crates/toml/src/fmt.rs` `DocumentFormatter`:
    below a table, inline tables become tables and non-empty arrays of inline tables become arrays of
    tables; below a value everything stays inline; non-empty tables are marked implicit; pretty mode
    lays arrays of two or more elements out one element per line;
  * `crates/toml_edit/src/encode.rs` `Display for DocumentMut` / `visit_table` / `encode_*`:
    tables depth first (all positions are `None`, the stable sort keeps that order), each one as an
    optional header followed by its own key/value lines.

  A `toml::Map` is an association list in the order the map yields its entries; keys are unique
  (`mapInsert` keeps that invariant for both flavours of the map). -/
namespace TomlVerif.Model.TomlValue
open TomlVerif TomlVerif.Model

/-- `toml::Value` -/
inductive TV where
  | str (s : Bytes)
  | int (n : Int)
  | float (bits : Nat)
  | bool (b : Bool)
  | dt (d : Datetime.Datetime)
  | arr (items : List TV)
  | tbl (items : List (Bytes × TV))

instance : Inhabited TV := ⟨.bool false⟩

/-- the two builds of `toml::map::Map`: `BTreeMap` (default) and `IndexMap` (feature `preserve_order`) -/
inductive Flavour where
  | sorted
  | insertion
  deriving DecidableEq, Repr

/-- `str` ordering of Rust: byte-wise lexicographic -/
def bytesLt : Bytes → Bytes → Bool
  | [], [] => false
  | [], _ :: _ => true
  | _ :: _, [] => false
  | a :: r, b :: s => if a < b then true else if b < a then false else bytesLt r s

/-- `BTreeMap::insert` on the sorted association list: replace an equal key, else insert in order -/
def sortedInsert {α} (k : Bytes) (v : α) : List (Bytes × α) → List (Bytes × α)
  | [] => [(k, v)]
  | (k', v') :: r =>
    if k' == k then (k', v) :: r
    else if bytesLt k k' then (k, v) :: (k', v') :: r
    else (k', v') :: sortedInsert k v r

/-- `Map::insert` -/
def mapInsert {α} (fl : Flavour) (k : Bytes) (v : α) (m : List (Bytes × α)) : List (Bytes × α) :=
  match fl with
  | .sorted => sortedInsert k v m
  | .insertion => aset k v m

namespace TV
def isTable : TV → Bool
  | tbl _ => true
  | _ => false
def isArray : TV → Bool
  | arr _ => true
  | _ => false
/-- `v.as_array().map(|a| a.iter().any(|v| v.is_table()))` -/
def arrayHasTable : TV → Option Bool
  | arr l => some (l.any isTable)
  | _ => none
end TV

/-- first loop of `impl Serialize for Value`: `!v.is_table() && !v.is_array() || (array without any table)` -/
def pass1 (v : TV) : Bool := (!v.isTable && !v.isArray) || (v.arrayHasTable.map (!·)).getD false
/-- second loop: arrays holding at least one table -/
def pass2 (v : TV) : Bool := v.arrayHasTable.getD false
/-- third loop: tables -/
def pass3 (v : TV) : Bool := v.isTable

/-- the order in which `impl Serialize for Value` hands the entries of one table to the serializer -/
def serOrder (items : List (Bytes × TV)) : List (Bytes × TV) :=
  items.filter (fun e => pass1 e.2) ++ items.filter (fun e => pass2 e.2) ++ items.filter (fun e => pass3 e.2)

/-! `norm`: the tree as the serializer receives it — `serOrder` at every table, date-times re-read from
their printed form (`toml_edit::ser` `DatetimeFieldSerializer` parses `Datetime::to_string`). -/
mutual
def norm : TV → Option TV
  | .str s => some (.str s)
  | .int n => some (.int n)
  | .float b => some (.float b)
  | .bool b => some (.bool b)
  | .dt d => (Datetime.Std.fromStr (Datetime.Std.display d)).map .dt
  | .arr l => (normList l).map .arr
  | .tbl items => (normPairs items).map fun ps => .tbl (serOrder ps)
def normList : List TV → Option (List TV)
  | [] => some []
  | v :: r =>
    match norm v, normList r with
    | some v', some r' => some (v' :: r')
    | _, _ => none
def normPairs : List (Bytes × TV) → Option (List (Bytes × TV))
  | [] => some []
  | (k, v) :: r =>
    match norm v, normPairs r with
    | some v', some r' => some ((k, v') :: r')
    | _, _ => none
end

/-- what `DocumentFormatter::visit_item_mut` turns an item below a table into -/
inductive Kind where
  | value
  | table
  | aot
  deriving DecidableEq, Repr

/-- `Item::into_array_of_tables`: non-empty and every element an inline table -/
def isAotList (l : List TV) : Bool := !l.isEmpty && l.all TV.isTable

def kindOf : TV → Kind
  | .tbl _ => .table
  | .arr l => if isAotList l then .aot else .value
  | _ => .value

/-- one line-level statement of the printed document -/
inductive Stmt where
  | header (path : List Bytes)
  | aotHeader (path : List Bytes)
  | kv (key : Bytes) (v : TV)

namespace Stmt
def isHeader : Stmt → Bool
  | header _ => true
  | aotHeader _ => true
  | kv _ _ => false
def isKv : Stmt → Bool
  | kv _ _ => true
  | _ => false
end Stmt

/-- `Table::get_values` on a formatted table: the entries that stayed values, in order -/
def ownValues (items : List (Bytes × TV)) : List (Bytes × TV) :=
  items.filter fun e => kindOf e.2 == .value

def ownKvs (items : List (Bytes × TV)) : List Stmt :=
  (ownValues items).map fun e => .kv e.1 e.2

/-- `visit_table`: the header line. The root has none; an array-of-tables element always has one; a
standard table is hidden when it is implicit (= non-empty, `DocumentFormatter::visit_table_mut`) and has
no values of its own. -/
def headerOf (path : List Bytes) (isAot : Bool) (items : List (Bytes × TV)) : List Stmt :=
  if path.isEmpty then []
  else if isAot then [.aotHeader path]
  else if !items.isEmpty && (ownValues items).isEmpty then []
  else [.header path]

/-- one table: header, own values, then whatever its sub-tables print -/
def tableStmts (path : List Bytes) (isAot : Bool) (items : List (Bytes × TV)) (subs : List Stmt) : List Stmt :=
  headerOf path isAot items ++ ownKvs items ++ subs

/-! `visit_nested_tables`: depth first over the entries in order -/
mutual
def emitSubs (path : List Bytes) : List (Bytes × TV) → List Stmt
  | [] => []
  | (k, v) :: r => emitItem (path ++ [k]) v ++ emitSubs path r
def emitItem (path : List Bytes) : TV → List Stmt
  | .tbl items => tableStmts path false items (emitSubs path items)
  | .arr l => if isAotList l then emitAot path l else []
  | _ => []
def emitAot (path : List Bytes) : List TV → List Stmt
  | [] => []
  | .tbl items :: r => tableStmts path true items (emitSubs path items) ++ emitAot path r
  | _ :: r => emitAot path r
end

/-- the statements of a whole document whose (normalised) root entries are `items` -/
def emitDoc (items : List (Bytes × TV)) : List Stmt :=
  tableStmts [] false items (emitSubs [] items)

/-! ### text -/

def sp : Bytes := [0x20]
def comma : Bytes := [0x2C]
def prettyIndent : Bytes := [0x0A, 0x20, 0x20, 0x20, 0x20]

/-- `Key::new(k).display_repr()` -/
def renderKey (k : Bytes) : Bytes := (Write.writeKey .default k).getD []

def joinWith (sep : Bytes) : List Bytes → Bytes
  | [] => []
  | [a] => a
  | a :: r => a ++ sep ++ joinWith sep r

def renderPath (p : List Bytes) : Bytes := joinWith [0x2E] (p.map renderKey)

/-- `f64` is printed by Rust's shortest-round-trip `Display`, which the model does not reproduce:
`fl bits` stands for `toml_write`'s text of the float. -/
abbrev FloatText := Nat → Bytes

mutual
/-- `encode_value` with cleared decor; `pretty` = `DocumentFormatter::multiline_array` -/
def renderVal (fl : FloatText) (pretty : Bool) : TV → Bytes
  | .str s => (Write.writeValue .default s).getD []
  | .int n => Numbers.writeInt n
  | .float b => fl b
  | .bool b => if b then strBytes "true" else strBytes "false"
  | .dt d => Datetime.Std.display d
  | .arr l =>
    if !pretty || l.length ≤ 1 then [0x5B] ++ renderElems fl pretty true l ++ [0x5D]
    else [0x5B] ++ renderElemsMl fl pretty l ++ [0x0A, 0x5D]
  | .tbl items => [0x7B] ++ renderInline fl pretty true items ++ [0x7D]
/-- elements on one line: `1, 2, 3` -/
def renderElems (fl : FloatText) (pretty : Bool) (first : Bool) : List TV → Bytes
  | [] => []
  | v :: r => (if first then [] else comma ++ sp) ++ renderVal fl pretty v ++ renderElems fl pretty false r
/-- elements one per line, each followed by a comma -/
def renderElemsMl (fl : FloatText) (pretty : Bool) : List TV → Bytes
  | [] => []
  | v :: r => prettyIndent ++ renderVal fl pretty v ++ comma ++ renderElemsMl fl pretty r
/-- `encode_table` (inline): ` k = v,` … with a space before the closing brace -/
def renderInline (fl : FloatText) (pretty : Bool) (first : Bool) : List (Bytes × TV) → Bytes
  | [] => []
  | (k, v) :: r =>
    (if first then [] else comma) ++ sp ++ renderKey k ++ sp ++ [0x3D] ++ sp ++ renderVal fl pretty v ++
      (if r.isEmpty then sp else []) ++ renderInline fl pretty false r
end

/-- `visit_table` over the statement list; `first` is `first_table` -/
def renderStmts (fl : FloatText) (pretty : Bool) : Bool → List Stmt → Bytes
  | _, [] => []
  | first, .header p :: r =>
    (if first then [] else [0x0A]) ++ [0x5B] ++ renderPath p ++ [0x5D, 0x0A] ++ renderStmts fl pretty false r
  | first, .aotHeader p :: r =>
    (if first then [] else [0x0A]) ++ [0x5B, 0x5B] ++ renderPath p ++ [0x5D, 0x5D, 0x0A] ++ renderStmts fl pretty false r
  | first, .kv k v :: r =>
    renderKey k ++ sp ++ [0x3D] ++ sp ++ renderVal fl pretty v ++ [0x0A] ++ renderStmts fl pretty first r

/-- `toml_datetime::__unstable::FIELD` -/
def privateField : Bytes := [36, 95, 95, 116, 111, 109, 108, 95, 112, 114, 105, 118, 97, 116, 101, 95, 100, 97, 116, 101, 116, 105, 109, 101]

inductive SerError where
  | unsupportedType
  | custom
  deriving DecidableEq, Repr

/-- `toml::to_string(&v)` / `to_string_pretty(&v)` for a `toml::Value`: the root must be a table
(`write_document`: `into_table` fails otherwise); a date-time whose printed form does not parse back is
a custom error. -/
def toText (fl : FloatText) (pretty : Bool) (v : TV) : Except SerError Bytes :=
  match norm v with
  | none => .error .custom
  | some (.tbl items) =>
    -- root: `if !children.is_empty() { *first_table = false }`
    .ok (renderStmts fl pretty (ownValues items).isEmpty (emitDoc items))
  -- a bare date-time: `toml::ser::Serializer::serialize_struct` passes the struct name on, the inner
  -- serializer builds a date-time, and `write_document` refuses it as a non-table root
  | some _ => .error .unsupportedType

/-- `toml::to_string(&t)` for a `toml::Table`: `impl Serialize for Map` (`crates/toml/src/map.rs`) hands the
root entries over in map order — no three passes at this level; the values below are `toml::Value`s. -/
def toTextTable (fl : FloatText) (pretty : Bool) (items : List (Bytes × TV)) : Except SerError Bytes :=
  match normPairs items with
  | none => .error .custom
  | some ps => .ok (renderStmts fl pretty (ownValues ps).isEmpty (emitDoc ps))

/-! does the tree hold a float anywhere (then `toText` needs a real `FloatText`) -/
mutual
def hasFloat : TV → Bool
  | .float _ => true
  | .arr l => hasFloatList l
  | .tbl items => hasFloatPairs items
  | _ => false
def hasFloatList : List TV → Bool
  | [] => false
  | v :: r => hasFloat v || hasFloatList r
def hasFloatPairs : List (Bytes × TV) → Bool
  | [] => false
  | (_, v) :: r => hasFloat v || hasFloatPairs r
end

end TomlVerif.Model.TomlValue
