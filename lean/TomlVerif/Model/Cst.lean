import TomlVerif.Model.Doc
/-! The format-preserving side of the `toml_edit` parser: the same control flow as
    `Model/{Value,State,Doc}.lean`, with the payloads the real parser records for printing —
    spans (`RawString::with_span`), decor (`Decor`), `Key::{leaf_decor,dotted_decor}`, array
    `trailing`/`trailing_comma`, inline table `preamble`, table `decor`/`span`/`position`.

    Positions: every token parser returns the unconsumed rest, so with `n` the length of the whole
    input the offset of a suffix `s` is `n - s.length` (`pos n s`). -/
namespace TomlVerif.Model.Cst
open TomlVerif TomlVerif.Spec TomlVerif.Model TomlVerif.Model.Strings TomlVerif.Model.Value

abbrev Span := Nat × Nat

/-- `RawString` as the parser produces it: `Empty` or `Spanned(a..b)` -/
inductive Raw where
  | empty
  | spanned (a b : Nat)
  deriving Repr, DecidableEq, Inhabited

/-- `RawString::with_span` -/
def Raw.withSpan (a b : Nat) : Raw := if a == b then .empty else .spanned a b

/-- `RawString::span` -/
def Raw.span : Raw → Option Span
  | .empty => none
  | .spanned a b => some (a, b)

/-- `Decor { prefix: Option<RawString>, suffix: Option<RawString> }`; `none` = default decor -/
structure Decor where
  pre : Option Raw := none
  suf : Option Raw := none
  deriving Repr, DecidableEq, Inhabited

/-- `Decor::new` -/
def Decor.new (p s : Raw) : Decor := ⟨some p, some s⟩

/-- `Key`: decoded text, `repr` (the parser always sets one), `leaf_decor`, `dotted_decor` -/
structure CKey where
  key : Bytes
  repr : Raw
  leaf : Decor := {}
  dotted : Decor := {}
  deriving Repr, DecidableEq, Inhabited

/-- `Value` with its formatting. Scalars keep the decoded value (`Formatted<T>`), their `repr`
    and `decor`; arrays `trailing`, `trailing_comma`, `decor`, `span`; inline tables `preamble`,
    `implicit`, `dotted`, `decor`, `span`. -/
inductive CVal where
  | scalar (v : Val) (repr : Raw) (decor : Decor)
  | arr (items : List CVal) (trailing : Raw) (comma : Bool) (decor : Decor) (span : Option Span)
  | inl (items : List (CKey × CVal)) (preamble : Raw) (implicit dotted : Bool) (decor : Decor) (span : Option Span)

instance : Inhabited CVal := ⟨.scalar (.bool false) .empty {}⟩

/-- `Value::decorate` -/
def CVal.setDecor : CVal → Decor → CVal
  | .scalar v r _, d => .scalar v r d
  | .arr i t c _ s, d => .arr i t c d s
  | .inl i p im dt _ s, d => .inl i p im dt d s

def CVal.decor : CVal → Decor
  | .scalar _ _ d => d
  | .arr _ _ _ d _ => d
  | .inl _ _ _ _ d _ => d

/-- `Value::span` -/
def CVal.span : CVal → Option Span
  | .scalar _ r _ => r.span
  | .arr _ _ _ _ s => s
  | .inl _ _ _ _ _ s => s

mutual
inductive CItem where
  | value (v : CVal)
  | table (t : CTbl)
  | aot (ts : List CTbl) (span : Option Span)
/-- `Table`: items, `implicit`, `dotted`, `doc_position`, `decor`, `span` -/
inductive CTbl where
  | mk (items : List (CKey × CItem)) (implicit dotted : Bool) (pos : Option Nat) (decor : Decor) (span : Option Span)
end

namespace CTbl
def items : CTbl → List (CKey × CItem) | mk i _ _ _ _ _ => i
def implicit : CTbl → Bool | mk _ i _ _ _ _ => i
def dotted : CTbl → Bool | mk _ _ d _ _ _ => d
def pos : CTbl → Option Nat | mk _ _ _ p _ _ => p
def decor : CTbl → Decor | mk _ _ _ _ d _ => d
def span : CTbl → Option Span | mk _ _ _ _ _ s => s
/-- `Table::default()` -/
def empty : CTbl := mk [] false false none {} none
def setItems (t : CTbl) (i : List (CKey × CItem)) : CTbl := mk i t.implicit t.dotted t.pos t.decor t.span
def setSpan (t : CTbl) (s : Option Span) : CTbl := mk t.items t.implicit t.dotted t.pos t.decor s
end CTbl

instance : Inhabited CTbl := ⟨CTbl.empty⟩

/-- `Item::span` -/
def CItem.span : CItem → Option Span
  | .value v => v.span
  | .table t => t.span
  | .aot _ s => s

/-- the document: root table and `trailing` -/
structure CDoc where
  root : CTbl
  trailing : Raw

/-! ### `IndexMap<Key, _>` helpers: keys compare by their decoded text; the stored `Key` of an
    occupied entry is kept -/

def clookup {α} (k : Bytes) : List (CKey × α) → Option α
  | [] => none
  | (k', v) :: r => if k'.key == k then some v else clookup k r

def ckeyOf {α} (k : Bytes) : List (CKey × α) → Option CKey
  | [] => none
  | (k', _) :: r => if k'.key == k then some k' else ckeyOf k r

def creplace {α} (k : Bytes) (v : α) : List (CKey × α) → List (CKey × α)
  | [] => []
  | (k', v') :: r => if k'.key == k then (k', v) :: r else (k', v') :: creplace k v r

/-- `entry_format(key).or_insert…` followed by writing the value: an existing entry keeps its
    stored key and position, a new entry is appended under a clone of `k` -/
def cset {α} (k : CKey) (v : α) (l : List (CKey × α)) : List (CKey × α) :=
  match clookup k.key l with
  | some _ => creplace k.key v l
  | none => l ++ [(k, v)]

/-- `shift_remove` -/
def cerase {α} (k : Bytes) : List (CKey × α) → List (CKey × α)
  | [] => []
  | (k', v') :: r => if k'.key == k then r else (k', v') :: cerase k r

/-- offset of the suffix `s` of an input of length `n` -/
def pos (n : Nat) (s : Bytes) : Nat := n - s.length

/-- `.span()` of a parser that started at suffix `s` and left `r` -/
def rawBetween (n : Nat) (s r : Bytes) : Raw := Raw.withSpan (pos n s) (pos n r)

/-! ### keys (`parser/key.rs`) -/

/-- `separated(1.., (ws.span(), simple_key, ws.span()), '.')`; same control flow as `Value.keyPathAux` -/
def ckeyPathAux (n : Nat) : Nat → Bytes → List CKey → Res (List CKey)
  | 0, _, _ => .bt
  | fuel + 1, s, acc =>
    let s0 := dropWs s
    match Key.simpleKey s0 with
    | .ok k r =>
      let r1 := dropWs r
      let ck : CKey := { key := k, repr := rawBetween n s0 r,
                         dotted := Decor.new (rawBetween n s s0) (rawBetween n r r1) }
      match r1 with
      | 0x2E :: r2 =>
        match ckeyPathAux n fuel r2 (acc ++ [ck]) with
        | .bt => .ok (acc ++ [ck]) r1
        | other => other
      | _ => .ok (acc ++ [ck]) r1
    | .bt => .bt
    | .cut => .cut

/-- the tail of `key`: the first key's dotted prefix and the last key's dotted suffix move into
    the last key's `leaf_decor` -/
def fixLeaf (ks : List CKey) : List CKey :=
  match ks with
  | [] => []
  | first :: rest =>
    let (leafPre, first') : Raw × CKey := match first.dotted.pre with
      | some p => (p, { first with dotted := { first.dotted with pre := some .empty } })
      | none => (.empty, first)
    match Value.splitLast (first' :: rest) with
    | none => first' :: rest
    | some (init, last) =>
      let (leafSuf, last') : Raw × CKey := match last.dotted.suf with
        | some q => (q, { last with dotted := { last.dotted with suf := some .empty } })
        | none => (.empty, last)
      init ++ [{ last' with leaf := Decor.new leafPre leafSuf }]

/-- `key` -/
def ckeyPath (n : Nat) (s : Bytes) : Res (List CKey) :=
  match ckeyPathAux n (s.length + 1) s [] with
  | .ok ks r => if LIMIT ≤ ks.length then .bt else .ok (fixLeaf ks) r
  | other => other

/-! ### inline tables: `table_from_pairs` -/

/-- `InlineTable::new()` with `implicit = dotted = true` -/
def newDottedInl (sub : List (CKey × CVal)) : CVal := .inl sub .empty true true {} none

def cinlInsert : List (CKey × CVal) → Bool → List CKey → Bool → CKey → CVal → Option (List (CKey × CVal))
  | items, tblDotted, [], pathEmpty, key, v =>
    if tblDotted == pathEmpty then none
    else match clookup key.key items with
      | some _ => none
      | none => some (items ++ [(key, v)])
  | items, _, k :: ks, pathEmpty, key, v =>
    match clookup k.key items with
    | none =>
      match cinlInsert [] true ks pathEmpty key v with
      | some sub => some (items ++ [(k, newDottedInl sub)])
      | none => none
    | some (.inl sub pre imp dot dec sp) =>
      if !imp then none
      else match cinlInsert sub dot ks pathEmpty key v with
        | some sub' => some (creplace k.key (.inl sub' pre imp dot dec sp) items)
        | none => none
    | some _ => none

def ctableFromPairs : List (List CKey × CKey × CVal) → List (CKey × CVal) → Option (List (CKey × CVal))
  | [], acc => some acc
  | (path, key, v) :: rest, acc =>
    match cinlInsert acc false path path.isEmpty key v with
    | some acc' => ctableFromPairs rest acc'
    | none => none

/-! ### values, arrays, inline tables -/

/-- `apply_raw`'s `val.decorate("", "")` -/
def emptyDecor : Decor := Decor.new .empty .empty

mutual
/-- `value` (with `.with_span()` and `apply_raw`) at recursion depth `d` -/
def cvalue (n : Nat) : Nat → Nat → Bytes → Res CVal
  | 0, _, _ => .cut
  | fuel + 1, d, s =>
    match s with
    | [] => .bt
    | b :: r =>
      if b == 0x5B then
        if LIMIT ≤ d + 1 then .cut
        else match carrayValues n fuel (d + 1) r with
          | .ok (vs, comma, trailing) r1 =>
            match r1 with
            | 0x5D :: r2 => .ok (.arr vs trailing comma emptyDecor (some (pos n s, pos n r2))) r2
            | _ => .cut
          | _ => .cut
      else if b == 0x7B then
        if LIMIT ≤ d + 1 then .cut
        else match cinlineKeyvals n fuel (d + 1) r [] with
          | .ok kvs r1 =>
            -- `ws.span()` after the separated list: the preamble
            let r1' := dropWs r1
            match ctableFromPairs kvs [] with
            | none => .cut
            | some items =>
              match r1' with
              | 0x7D :: r2 => .ok (.inl items (rawBetween n r1 r1') false false emptyDecor (some (pos n s, pos n r2))) r2
              | _ => .cut
          | _ => .cut
      else
        -- scalars: the token parsers of the semantic model (no recursion: one unit of fuel)
        match Value.value 1 d s with
        | .ok v r1 => .ok (.scalar v (rawBetween n s r1) emptyDecor) r1
        | .bt => .bt
        | .cut => .cut

/-- `array_values` (input after `[`): values, `trailing_comma`, `trailing`; rest at the closing bracket -/
def carrayValues (n : Nat) : Nat → Nat → Bytes → Res (List CVal × Bool × Raw)
  | 0, _, _ => .cut
  | fuel + 1, d, s =>
    match s with
    | 0x5D :: _ => .ok ([], false, .empty) s
    | _ =>
      match carrayElems n fuel d s [] with
      | .ok vs r =>
        let (comma, r1) : Bool × Bytes :=
          if vs.isEmpty then (false, r) else (match r with | 0x2C :: t => (true, t) | _ => (false, r))
        match wsCommentNewline (r1.length + 1) r1 with
        | some r2 => .ok (vs, comma, rawBetween n r1 r2) r2
        | none => .bt
      | .bt => .bt
      | .cut => .cut

/-- `separated(0.., array_value, ',')` -/
def carrayElems (n : Nat) : Nat → Nat → Bytes → List CVal → Res (List CVal)
  | 0, _, _, _ => .cut
  | fuel + 1, d, s, acc =>
    match wsCommentNewline (s.length + 1) s with
    | none => .ok acc s
    | some s1 =>
      match cvalue n fuel d s1 with
      | .cut => .cut
      | .bt => .ok acc s
      | .ok v s2 =>
        match wsCommentNewline (s2.length + 1) s2 with
        | none => .ok acc s
        | some s3 =>
          let v' := v.setDecor (Decor.new (rawBetween n s s1) (rawBetween n s2 s3))
          match s3 with
          | 0x2C :: s4 =>
            match carrayElems n fuel d s4 (acc ++ [v']) with
            | .ok vs r => if vs.length == (acc ++ [v']).length then .ok vs s3 else .ok vs r
            | other => other
          | _ => .ok (acc ++ [v']) s3

/-- `separated(0.., keyval, ',')` of an inline table -/
def cinlineKeyvals (n : Nat) : Nat → Nat → Bytes → List (List CKey × CKey × CVal) → Res (List (List CKey × CKey × CVal))
  | 0, _, _, _ => .cut
  | fuel + 1, d, s, acc =>
    match ckeyPath n s with
    | .cut => .cut
    | .bt => .ok acc s
    | .ok ks r =>
      if LIMIT ≤ d + (ks.length - 1) then .cut else
      match r with
      | 0x3D :: r1 =>
        let r1' := dropWs r1
        match cvalue n fuel (d + (ks.length - 1)) r1' with
        | .ok v r2 =>
          let r3 := dropWs r2
          let v' := v.setDecor (Decor.new (rawBetween n r1 r1') (rawBetween n r2 r3))
          match Value.splitLast ks with
          | none => .cut
          | some (path, key) =>
            let acc' := acc ++ [(path, key, v')]
            match r3 with
            | 0x2C :: r4 =>
              match cinlineKeyvals n fuel d r4 acc' with
              | .ok kvs r5 => if kvs.length == acc'.length then .ok kvs r3 else .ok kvs r5
              | other => other
            | _ => .ok acc' r3
        | _ => .cut
      | _ => .cut
end

/-! ### `ParseState` (`parser/state.rs`) -/

structure CState where
  root : CTbl := CTbl.empty
  trailing : Option Span := none
  position : Nat := 0
  /-- `ParseState::new`: the initial current table carries `span = Some(0..0)` -/
  current : CTbl := .mk [] false false none {} (some (0, 0))
  currentIsArray : Bool := false
  currentPath : List CKey := []

/-- `on_ws` / `on_comment` -/
def onWs (st : CState) (a b : Nat) : CState :=
  match st.trailing with
  | some (a0, _) => { st with trailing := some (a0, b) }
  | none => { st with trailing := some (a, b) }

/-- `self.trailing.take().map(RawString::with_span).unwrap_or_default()` -/
def takeTrailing (t : Option Span) : Raw :=
  match t with
  | some (a, b) => Raw.withSpan a b
  | none => .empty

def newImplicit (dotted : Bool) : CTbl := .mk [] true dotted none {} none

def modifyLast (ts : List CTbl) (f : CTbl → Option CTbl) : Option (List CTbl) :=
  match ts.reverse with
  | [] => none
  | l :: initRev => match f l with
    | some l' => some (initRev.reverse ++ [l'])
    | none => none

/-- `descend_path(table, path, dotted)` followed by `f` on the table reached -/
def descend : CTbl → List CKey → Bool → (CTbl → Option CTbl) → Option CTbl
  | t, [], _, f => f t
  | t, k :: ks, dotted, f =>
    let entry : CItem := (clookup k.key t.items).getD (.table (newImplicit dotted))
    match entry with
    | .value _ => none
    | .aot ts sp =>
      if dotted && !ks.isEmpty then none else
      match modifyLast ts (fun last => descend last ks dotted f) with
      | some ts' => some (t.setItems (cset k (.aot ts' sp) t.items))
      | none => none
    | .table sub =>
      if dotted && !sub.implicit then none
      else match descend sub ks dotted f with
        | some sub' => some (t.setItems (cset k (.table sub') t.items))
        | none => none

/-- `on_keyval`: the pending `trailing` joins the key's leaf prefix; the current table's span is
    extended to the value's end -/
def onKeyval (st : CState) (path : List CKey) (key : CKey) (v : CVal) : Option CState :=
  let kpre : Option Span := match key.leaf.pre with
    | some r => r.span
    | none => none
  let pre : Option Span := match st.trailing, kpre with
    | some p, some k => some (p.1, k.2)
    | some p, none => some p
    | none, some p => some p
    | none, none => none
  let key' : CKey := { key with leaf := { key.leaf with pre := some (takeTrailing pre) } }
  let cur : CTbl := match st.current.span, v.span with
    | some e, some vs => st.current.setSpan (some (e.1, vs.2))
    | _, _ => st.current
  let r := descend cur path true fun table =>
    if table.dotted == path.isEmpty then none
    else match clookup key'.key table.items with
      | some _ => none
      | none => some (table.setItems (table.items ++ [(key', .value v)]))
  r.map fun c => { st with current := c, trailing := none }

def aotSpan (ts : List CTbl) : Option Span :=
  match ts.head?, ts.getLast? with
  | some f, some l =>
    match f.span, l.span with
    | some a, some b => some (a.1, b.2)
    | _, _ => none
  | _, _ => none

/-- `finalize_table` -/
def finalizeTable (st : CState) : Option CState :=
  let table := st.current
  let path := st.currentPath
  let st := { st with current := CTbl.empty, currentPath := [] }
  match Value.splitLast path with
  | none =>
    if st.root.items.isEmpty then some { st with root := table } else none
  | some (parentPath, key) =>
    if st.currentIsArray then
      let r := descend st.root parentPath false fun parent =>
        match (clookup key.key parent.items).getD (.aot [] none) with
        | .aot ts _ =>
          let ts' := ts ++ [table]
          some (parent.setItems (cset key (.aot ts' (aotSpan ts')) parent.items))
        | _ => none
      r.map fun root => { st with root := root }
    else
      let r := descend st.root parentPath false fun parent =>
        match clookup key.key parent.items with
        | some (.table t) => if t.implicit then some (parent.setItems (creplace key.key (.table table) parent.items)) else none
        | some _ => none
        | none => some (parent.setItems (parent.items ++ [(key, .table table)]))
      r.map fun root => { st with root := root }

/-- the table a header path ends at, when it is an `Item::Table` -/
def findTable (key : Bytes) : CTbl → List CKey → Option CTbl
  | t, [] => match clookup key t.items with
    | some (.table x) => some x
    | _ => none
  | t, k :: ks => match clookup k.key t.items with
    | some (.table sub) => findTable key sub ks
    | some (.aot ts _) => match ts.reverse with
      | l :: _ => findTable key l ks
      | [] => none
    | _ => none

/-- `start_table` (after `finalize_table`) -/
def startTable (st : CState) (path : List CKey) (decor : Decor) (span : Span) : Option CState :=
  match Value.splitLast path with
  | none => none
  | some (parentPath, key) =>
    let probe := descend st.root parentPath false fun parent =>
      match clookup key.key parent.items with
      | some (.table t) => if t.implicit && !t.dotted then some parent else none
      | some _ => none
      | none => some parent
    match probe with
    | none => none
    | some _ =>
      let removed : Option CTbl := findTable key.key st.root parentPath
      let root' := descend st.root parentPath false fun parent => some (parent.setItems (cerase key.key parent.items))
      match root' with
      | none => none
      | some root' =>
        let base : CTbl := removed.getD st.current
        some { st with root := root', position := st.position + 1,
                       current := .mk base.items false false (some (st.position + 1)) decor (some span),
                       currentIsArray := false, currentPath := path }

/-- `start_array_table` -/
def startArrayTable (st : CState) (path : List CKey) (decor : Decor) (span : Span) : Option CState :=
  match Value.splitLast path with
  | none => none
  | some (parentPath, key) =>
    let root' := descend st.root parentPath false fun parent =>
      match clookup key.key parent.items with
      | some (.aot _ _) => some parent
      | some _ => none
      | none => some (parent.setItems (parent.items ++ [(key, .aot [] none)]))
    match root' with
    | none => none
    | some root' =>
      some { st with root := root', position := st.position + 1,
                     current := .mk st.current.items false false (some (st.position + 1)) decor (some span),
                     currentIsArray := true, currentPath := path }

/-- `on_std_header(path, trailing, span)` -/
def onStdHeader (st : CState) (path : List CKey) (trailing : Raw) (span : Span) : Option CState :=
  match finalizeTable st with
  | some st' =>
    let leading := takeTrailing st'.trailing
    startTable { st' with trailing := none } path (Decor.new leading trailing) span
  | none => none

/-- `on_array_header(path, trailing, span)` -/
def onArrayHeader (st : CState) (path : List CKey) (trailing : Raw) (span : Span) : Option CState :=
  match finalizeTable st with
  | some st' =>
    let leading := takeTrailing st'.trailing
    startArrayTable { st' with trailing := none } path (Decor.new leading trailing) span
  | none => none

/-- `into_document` -/
def intoDocument (st : CState) : Option CDoc :=
  match finalizeTable st with
  | some st' => some { root := st'.root, trailing := takeTrailing st'.trailing }
  | none => none

/-! ### the line driver (`parser/document.rs`, `parser/table.rs`) -/

/-- end of `(ws, opt(comment)).span()` inside `line_trailing` (the line ending is not part of the span) -/
def trailEnd (s : Bytes) : Bytes :=
  let s1 := dropWs s
  match s1 with
  | 0x23 :: r => dropComment r
  | _ => s1

/-- `parse_keyval` + `on_keyval` -/
def ckeyvalLine (n : Nat) (st : CState) (s : Bytes) : Option (CState × Bytes) :=
  match ckeyPath n s with
  | .ok ks r =>
    if LIMIT ≤ ks.length - 1 then none else
    match r with
    | 0x3D :: r1 =>
      let r1' := dropWs r1
      match cvalue n (3 * r1.length + 4) (ks.length - 1) r1' with
      | .ok v r2 =>
        match lineTrailing r2 with
        | .ok () r3 =>
          let v' := v.setDecor (Decor.new (rawBetween n r1 r1') (rawBetween n r2 (trailEnd r2)))
          match Value.splitLast ks with
          | some (path, key) => (onKeyval st path key v').map fun st' => (st', r3)
          | none => none
        | _ => none
      | _ => none
    | _ => none
  | _ => none

/-- `table` -/
def ctableLine (n : Nat) (st : CState) (s : Bytes) : Option (CState × Bytes) :=
  match s with
  | 0x5B :: 0x5B :: r =>
    match ckeyPath n r with
    | .ok ks r1 =>
      match r1 with
      | 0x5D :: 0x5D :: r2 =>
        match lineTrailing r2 with
        | .ok () r3 => (onArrayHeader st ks (rawBetween n r2 (trailEnd r2)) (pos n s, pos n r2)).map fun st' => (st', r3)
        | _ => none
      | _ => none
    | _ => none
  | 0x5B :: r =>
    if r.isEmpty then none else
    match ckeyPath n r with
    | .ok ks r1 =>
      match r1 with
      | 0x5D :: r2 =>
        match lineTrailing r2 with
        | .ok () r3 => (onStdHeader st ks (rawBetween n r2 (trailEnd r2)) (pos n s, pos n r2)).map fun st' => (st', r3)
        | _ => none
      | _ => none
    | _ => none
  | _ => none

/-- `parse_ws` -/
def parseWs (n : Nat) (st : CState) (s : Bytes) : CState × Bytes :=
  let s' := dropWs s
  (onWs st (pos n s) (pos n s'), s')

/-- the `repeat(0.., (dispatch, parse_ws))` loop followed by `eof` -/
def clines (n : Nat) : Nat → CState → Bytes → Option CState
  | 0, _, _ => none
  | fuel + 1, st, s =>
    match s with
    | [] => some st
    | b :: r =>
      if b == 0x23 then
        let r1 := dropComment r
        match r1 with
        | [] => some (parseWs n (onWs st (pos n s) n) []).1
        | _ => match newline? r1 with
          | some r2 =>
            let (st', r3) := parseWs n (onWs st (pos n s) (pos n r2)) r2
            clines n fuel st' r3
          | none => none
      else if b == 0x5B then
        match ctableLine n st s with
        | some (st', r1) =>
          let (st'', r2) := parseWs n st' r1
          clines n fuel st'' r2
        | none => none
      else if b == 0x0A || b == 0x0D then
        match newline? s with
        | some r1 =>
          let (st', r2) := parseWs n (onWs st (pos n s) (pos n r1)) r1
          clines n fuel st' r2
        | none => none
      else
        match ckeyvalLine n st s with
        | some (st', r1) =>
          let (st'', r2) := parseWs n st' r1
          clines n fuel st'' r2
        | none => none

/-- `parse_document` (on UTF-8 text) keeping the layout: `none` = rejected -/
def parseCst (s : Bytes) : Option CDoc :=
  let n := s.length
  let s0 := Doc.stripBom s
  let (st0, s1) := parseWs n {} s0
  match clines n (s1.length + 1) st0 s1 with
  | some st => intoDocument st
  | none => none

/-- the slice entry point: UTF-8 validation first -/
def parseCstSlice (b : Bytes) : Option CDoc :=
  if Utf8.valid b then parseCst b else none

/-- value-level entry (`parse_value`): the whole text is one value -/
def parseCstValue (s : Bytes) : Option CVal :=
  match cvalue s.length (3 * s.length + 4) 0 s with
  | .ok v [] => some v
  | _ => none

/-! ### forgetting the layout: the semantic tree of `Model/Tree.lean` -/

mutual
def eraseVal : CVal → Val
  | .scalar v _ _ => v
  | .arr items _ _ _ _ => .arr (eraseVals items)
  | .inl items _ imp dot _ _ => .inl (eraseKvs items) imp dot
def eraseVals : List CVal → List Val
  | [] => []
  | v :: r => eraseVal v :: eraseVals r
def eraseKvs : List (CKey × CVal) → List (Bytes × Val)
  | [] => []
  | (k, v) :: r => (k.key, eraseVal v) :: eraseKvs r
end

mutual
def eraseItem : CItem → Item
  | .value v => .value (eraseVal v)
  | .table t => .table (eraseTbl t)
  | .aot ts _ => .aot (eraseTbls ts)
def eraseTbl : CTbl → Tbl
  | .mk items imp dot p _ _ => .mk (eraseItems items) imp dot p
def eraseTbls : List CTbl → List Tbl
  | [] => []
  | t :: r => eraseTbl t :: eraseTbls r
def eraseItems : List (CKey × CItem) → List (Bytes × Item)
  | [] => []
  | (k, i) :: r => (k.key, eraseItem i) :: eraseItems r
end

end TomlVerif.Model.Cst
