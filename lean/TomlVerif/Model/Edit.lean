import TomlVerif.Model.Encode
import TomlVerif.Model.Write
import TomlVerif.Model.Numbers
import TomlVerif.Spec.OrderedPlain
/-! Model of the mutating API of `toml_edit` (`table.rs`, `inline_table.rs`, `array.rs`,
    `array_of_tables.rs`, `item.rs`, `index.rs`, `key.rs`) on the decorated tree of `Model/Cst.lean`.

    Text: a `DocumentMut` holds explicit strings (`into_mut` = `despan`); the model keeps the spans
    and an *arena* — the input text followed by every string an edit created (default reprs of new
    keys and values, the `" "` of `Value::decorate(" ", "")`). A new string is appended to the arena
    and referred to by its span there, so `Encode.printDoc arena doc` is the printer of the edited
    document, unchanged. A repr of `None` (`Key::new`, `Formatted::new`, `Key::fmt`) prints as
    `default_repr()`, a function of the decoded value alone; the model writes that text into the
    arena when the key / value is created. Decor of `None` stays `none` (the printer's defaults). -/
namespace TomlVerif.Model.Edit
open TomlVerif TomlVerif.Model TomlVerif.Model.Cst
open TomlVerif.Spec.OrderedPlain (bytesLt)

/-! ### new text -/

/-- the scalar payloads the ops carry (`Value::from(i64 | String | bool)`) -/
inductive Sc where
  | int (n : Int)
  | str (s : Bytes)
  | bool (b : Bool)
  deriving Repr, DecidableEq

def Sc.val : Sc → Val
  | .int n => .int n
  | .str s => .str s
  | .bool b => .bool b

/-- `ValueRepr::to_repr` (`encode.rs`): `i64`/`bool` via `to_toml_value`, `String` via
    `TomlStringBuilder::as_default` -/
def Sc.repr : Sc → Bytes
  | .int n => Numbers.writeInt n
  | .str s => (Write.writeValue .default s).getD []
  | .bool b => if b then strBytes "true" else strBytes "false"

/-- `Key::default_repr`: `TomlKeyBuilder::as_default` -/
def keyRepr (k : Bytes) : Bytes := (Write.writeKey .default k).getD []

/-- append `t` to the arena; the `RawString` denoting it -/
def mkRaw (inp t : Bytes) : Bytes × Raw :=
  (inp ++ t, Raw.withSpan inp.length (inp.length + t.length))

/-- `Key::new(k)` (also the result of `Key::fmt` on a key with the same text): `kr` denotes `keyRepr k` -/
def newKey (k : Bytes) (kr : Raw) : CKey := { key := k, repr := kr, leaf := {}, dotted := {} }

/-- `Value::from(scalar)`: no repr (`vr` denotes the default one), default decor -/
def newScalar (v : Sc) (vr : Raw) : CVal := .scalar v.val vr {}

/-! ### paths -/

/-- one path segment of the case line, read both ways: as a key (for table-likes) and as an index
    (for arrays and arrays of tables) -/
structure Seg where
  key : Option Bytes
  idx : Option Nat
  deriving Repr, DecidableEq

/-- what a path leads to -/
inductive Node where
  | tbl (t : CTbl)
  | val (v : CVal)
  | aot (ts : List CTbl) (span : Option Span)

/-- the three node updates an op consists of; `none` = the op does not apply to that node -/
structure Upd where
  tbl : CTbl → Option CTbl
  val : CVal → Option CVal
  aot : List CTbl → Option (List CTbl)

mutual
/-- update below a value: `InlineTable::get_mut(key)`, `Array::get_mut(index)` -/
def updVal (u : Upd) : List Seg → CVal → Option CVal
  | [], v => u.val v
  | _ :: _, .scalar _ _ _ => none
  | s :: r, .arr items tr c d sp =>
    match s.idx with
    | some i => (updElems u i r items).map fun items' => .arr items' tr c d sp
    | none => none
  | s :: r, .inl items pre imp dot d sp =>
    match s.key with
    | some k => (updKvs u k r items).map fun items' => .inl items' pre imp dot d sp
    | none => none
def updElems (u : Upd) : Nat → List Seg → List CVal → Option (List CVal)
  | _, _, [] => none
  | 0, r, v :: rest => (updVal u r v).map fun v' => v' :: rest
  | i + 1, r, v :: rest => (updElems u i r rest).map fun rest' => v :: rest'
def updKvs (u : Upd) (k : Bytes) : List Seg → List (CKey × CVal) → Option (List (CKey × CVal))
  | _, [] => none
  | r, (k', v) :: rest =>
    if k'.key == k then (updVal u r v).map fun v' => (k', v') :: rest
    else (updKvs u k r rest).map fun rest' => (k', v) :: rest'
end

mutual
/-- update below a table: `Table::get_mut(key)` -/
def updTbl (u : Upd) : List Seg → CTbl → Option CTbl
  | [], t => u.tbl t
  | s :: r, .mk items imp dot p dec sp =>
    match s.key with
    | some k => (updItems u k r items).map fun items' => .mk items' imp dot p dec sp
    | none => none
def updItems (u : Upd) (k : Bytes) : List Seg → List (CKey × CItem) → Option (List (CKey × CItem))
  | _, [] => none
  | r, (k', it) :: rest =>
    if k'.key == k then (updItem u r it).map fun it' => (k', it') :: rest
    else (updItems u k r rest).map fun rest' => (k', it) :: rest'
def updItem (u : Upd) : List Seg → CItem → Option CItem
  | r, .value v => (updVal u r v).map .value
  | r, .table t => (updTbl u r t).map .table
  | [], .aot ts sp => (u.aot ts).map fun ts' => .aot ts' sp
  | s :: r, .aot ts sp =>
    match s.idx with
    | some i => (updNth u i r ts).map fun ts' => .aot ts' sp
    | none => none
/-- `ArrayOfTables::get_mut(index)` -/
def updNth (u : Upd) : Nat → List Seg → List CTbl → Option (List CTbl)
  | _, _, [] => none
  | 0, r, t :: rest => (updTbl u r t).map fun t' => t' :: rest
  | i + 1, r, t :: rest => (updNth u i r rest).map fun rest' => t :: rest'
end

mutual
/-- the node a path leads to below a value -/
def lookupVal : List Seg → CVal → Option Node
  | [], v => some (.val v)
  | _ :: _, .scalar _ _ _ => none
  | s :: r, .arr items _ _ _ _ =>
    match s.idx with
    | some i => lookupElems i r items
    | none => none
  | s :: r, .inl items _ _ _ _ _ =>
    match s.key with
    | some k => lookupKvs k r items
    | none => none
def lookupElems : Nat → List Seg → List CVal → Option Node
  | _, _, [] => none
  | 0, r, v :: _ => lookupVal r v
  | i + 1, r, _ :: rest => lookupElems i r rest
def lookupKvs (k : Bytes) : List Seg → List (CKey × CVal) → Option Node
  | _, [] => none
  | r, (k', v) :: rest => if k'.key == k then lookupVal r v else lookupKvs k r rest
end

mutual
/-- the node a path leads to below a table -/
def lookupTbl : List Seg → CTbl → Option Node
  | [], t => some (.tbl t)
  | s :: r, .mk items _ _ _ _ _ =>
    match s.key with
    | some k => lookupItems k r items
    | none => none
def lookupItems (k : Bytes) : List Seg → List (CKey × CItem) → Option Node
  | _, [] => none
  | r, (k', it) :: rest => if k'.key == k then lookupItem r it else lookupItems k r rest
def lookupItem : List Seg → CItem → Option Node
  | r, .value v => lookupVal r v
  | r, .table t => lookupTbl r t
  | [], .aot ts sp => some (.aot ts sp)
  | s :: r, .aot ts _ =>
    match s.idx with
    | some i => lookupNth i r ts
    | none => none
def lookupNth : Nat → List Seg → List CTbl → Option Node
  | _, _, [] => none
  | 0, r, t :: _ => lookupTbl r t
  | i + 1, r, _ :: rest => lookupNth i r rest
end

/-! ### `IndexMap` operations on entries -/

/-- `Table::insert` / `InlineTable::insert`: an occupied entry keeps its place, its key is
    re-formatted (`key_mut().fmt()`, which makes it equal to the fresh `Key::new`) and the item is
    replaced; a vacant entry is appended -/
def cinsert {α} (k : CKey) (v : α) : List (CKey × α) → List (CKey × α)
  | [] => [(k, v)]
  | (k', v') :: r => if k'.key == k.key then (k, v) :: r else (k', v') :: cinsert k v r

/-- `Vec::insert(index, x)` for `index ≤ len` -/
def insertAt {α} (x : α) : Nat → List α → List α
  | 0, l => x :: l
  | _ + 1, [] => [x]
  | i + 1, y :: r => y :: insertAt x i r

/-- `Vec::remove(index)` for `index < len` -/
def removeAt {α} : Nat → List α → List α
  | _, [] => []
  | 0, _ :: r => r
  | i + 1, y :: r => y :: removeAt i r

/-- stable insertion by key text (`str::cmp`) -/
def insertByCKey {α} (x : CKey × α) : List (CKey × α) → List (CKey × α)
  | [] => [x]
  | y :: r => if bytesLt y.1.key x.1.key then y :: insertByCKey x r else x :: y :: r

/-- `IndexMap::sort_keys` -/
def sortByCKey {α} : List (CKey × α) → List (CKey × α)
  | [] => []
  | x :: r => insertByCKey x (sortByCKey r)

/-! ### table-likes -/

/-- `Table::insert(k, Item::Value(v))` -/
def tblSet (k : Bytes) (kr vr : Raw) (v : Sc) (t : CTbl) : Option CTbl :=
  some (t.setItems (cinsert (newKey k kr) (.value (newScalar v vr)) t.items))

/-- `InlineTable::insert(k, v)` -/
def inlSet (k : Bytes) (kr vr : Raw) (v : Sc) : CVal → Option CVal
  | .inl items pre imp dot d sp => some (.inl (cinsert (newKey k kr) (newScalar v vr) items) pre imp dot d sp)
  | _ => none

/-- `Table::remove(k)` of a present key (`shift_remove`) -/
def tblDel (k : Bytes) (t : CTbl) : Option CTbl :=
  match clookup k t.items with
  | some _ => some (t.setItems (cerase k t.items))
  | none => none

/-- `InlineTable::remove(k)` of a present key -/
def inlDel (k : Bytes) : CVal → Option CVal
  | .inl items pre imp dot d sp =>
    match clookup k items with
    | some _ => some (.inl (cerase k items) pre imp dot d sp)
    | none => none
  | _ => none

/-- `Table::insert(k, Item::Table(Table::new()))` -/
def tblNewTable (k : Bytes) (kr : Raw) (t : CTbl) : Option CTbl :=
  some (t.setItems (cinsert (newKey k kr) (.table CTbl.empty) t.items))

/-- `InlineTable::default()` holding the given pairs -/
def freshInl (items : List (CKey × CVal)) : CVal := .inl items .empty false false {} none

/-- `table[k1][k2] = value(v)` (`IndexMut`): `Table::index_mut` is `entry(k1).or_insert(Item::None)`;
    `Item::index_mut` turns `Item::None` into an inline table and otherwise takes
    `entry(k2).or_insert(Item::None)` of the table-like; the assignment replaces the item only —
    the stored key of an occupied entry is kept as it is -/
def tblViv (k1 k2 : Bytes) (kr1 kr2 vr : Raw) (v : Sc) (t : CTbl) : Option CTbl :=
  match clookup k1 t.items with
  | none => some (t.setItems (t.items ++ [(newKey k1 kr1, .value (freshInl [(newKey k2 kr2, newScalar v vr)]))]))
  | some (.table sub) =>
    some (t.setItems (creplace k1 (.table (sub.setItems (cset (newKey k2 kr2) (.value (newScalar v vr)) sub.items))) t.items))
  | some (.value (.inl items pre imp dot d sp)) =>
    some (t.setItems (creplace k1 (.value (.inl (cset (newKey k2 kr2) (newScalar v vr) items) pre imp dot d sp)) t.items))
  | some _ => none

/-! ### sorting -/

mutual
/-- `Table::sort_values`: `sort_keys`, then the dotted sub-tables, recursively -/
def sortTbl : CTbl → CTbl
  | .mk items imp dot p d sp => .mk (sortByCKey (sortSub items)) imp dot p d sp
def sortSub : List (CKey × CItem) → List (CKey × CItem)
  | [] => []
  | (k, .table t) :: r => (k, .table (if t.dotted then sortTbl t else t)) :: sortSub r
  | (k, .value v) :: r => (k, .value v) :: sortSub r
  | (k, .aot ts sp) :: r => (k, .aot ts sp) :: sortSub r
end

mutual
/-- `InlineTable::sort_values` (on inline tables; other values unchanged) -/
def sortInl : CVal → CVal
  | .inl items pre imp dot d sp => .inl (sortByCKey (sortInlSub items)) pre imp dot d sp
  | .scalar a b c => .scalar a b c
  | .arr a b c d e => .arr a b c d e
def sortInlSub : List (CKey × CVal) → List (CKey × CVal)
  | [] => []
  | (k, .inl items pre imp dot d sp) :: r =>
    (k, if dot then sortInl (.inl items pre imp dot d sp) else .inl items pre imp dot d sp) :: sortInlSub r
  | (k, .scalar a b c) :: r => (k, .scalar a b c) :: sortInlSub r
  | (k, .arr a b c d e) :: r => (k, .arr a b c d e) :: sortInlSub r
end

def inlSort : CVal → Option CVal
  | .inl items pre imp dot d sp => some (sortInl (.inl items pre imp dot d sp))
  | _ => none

/-! ### `fmt` -/

/-- the key part of `decorate_table` / `decorate_inline_table`: `leaf_decor.clear()`, `dotted_decor.clear()` -/
def clearKey (k : CKey) : CKey := { k with leaf := {}, dotted := {} }

/-- `decorate_table`: the entries that are values -/
def fmtItems : List (CKey × CItem) → List (CKey × CItem)
  | [] => []
  | (k, .value v) :: r => (clearKey k, .value (v.setDecor {})) :: fmtItems r
  | (k, it) :: r => (k, it) :: fmtItems r

/-- `decorate_inline_table` -/
def fmtKvs : List (CKey × CVal) → List (CKey × CVal)
  | [] => []
  | (k, v) :: r => (clearKey k, v.setDecor {}) :: fmtKvs r

/-- the element loop of `decorate_array`: `("", "")` for the first value, `(" ", "")` for the others;
    `sp` denotes `" "` -/
def fmtElems (sp : Raw) : List CVal → Bool → List CVal
  | [], _ => []
  | v :: r, first => v.setDecor (if first then Decor.new .empty .empty else Decor.new sp .empty) :: fmtElems sp r false

/-- `Table::fmt` -/
def tblFmt (t : CTbl) : Option CTbl := some (t.setItems (fmtItems t.items))

/-- `InlineTable::fmt` / `Array::fmt` -/
def valFmt (sp : Raw) : CVal → Option CVal
  | .inl items pre imp dot d s => some (.inl (fmtKvs items) pre imp dot d s)
  | .arr items _ _ d s => some (.arr (fmtElems sp items true) .empty false d s)
  | .scalar _ _ _ => none

/-! ### arrays -/

/-- `Array::value_op`'s decoration of the new value -/
def opDecor (sp : Raw) (isEmpty : Bool) : Decor :=
  if isEmpty then Decor.new .empty .empty else Decor.new sp .empty

/-- `Array::push(v)` -/
def arrPush (vr sp : Raw) (v : Sc) : CVal → Option CVal
  | .arr items tr c d s =>
    some (.arr (items ++ [(newScalar v vr).setDecor (opDecor sp items.isEmpty)]) tr c d s)
  | _ => none

/-- `Array::insert(i, v)` with `i ≤ len` -/
def arrInsert (i : Nat) (vr sp : Raw) (v : Sc) : CVal → Option CVal
  | .arr items tr c d s =>
    if i ≤ items.length then
      some (.arr (insertAt ((newScalar v vr).setDecor (opDecor sp items.isEmpty)) i items) tr c d s)
    else none
  | _ => none

/-- `Array::replace(i, v)` with `i < len`: the new value takes over the decor of the old one -/
def arrReplace (i : Nat) (vr : Raw) (v : Sc) : CVal → Option CVal
  | .arr items tr c d s =>
    match items[i]? with
    | some old => some (.arr (items.set i ((newScalar v vr).setDecor old.decor)) tr c d s)
    | none => none
  | _ => none

/-- `Array::remove(i)` with `i < len` -/
def arrRemove (i : Nat) : CVal → Option CVal
  | .arr items tr c d s => if i < items.length then some (.arr (removeAt i items) tr c d s) else none
  | _ => none

/-! ### arrays of tables -/

/-- `let mut t = Table::new(); t.insert("n", value(len)); aot.push(t)`; `kr` denotes `n`, `vr` the number -/
def aotPush (kr vr : Raw) (ts : List CTbl) : Option (List CTbl) :=
  some (ts ++ [.mk [(newKey [0x6E] kr, .value (newScalar (.int ts.length) vr))] false false none {} none])

/-- `ArrayOfTables::remove(i)` with `i < len` -/
def aotRemove (i : Nat) (ts : List CTbl) : Option (List CTbl) :=
  if i < ts.length then some (removeAt i ts) else none

/-! ### conversions (`item.rs`) -/

mutual
/-- `Item::make_value` / `Item::into_value` -/
def itemToVal (sp : Raw) : CItem → CVal
  | .value v => v
  | .table t => tblToInl sp t
  | .aot ts _ => .arr (fmtElems sp (tblsToVals sp ts) true) .empty false {} none
/-- `Table::into_inline_table`: every item `make_value`, `InlineTable::with_pairs`, `fmt()` -/
def tblToInl (sp : Raw) : CTbl → CVal
  | .mk items _ _ _ _ _ => freshInl (fmtKvs (itemsToKvs sp items))
def itemsToKvs (sp : Raw) : List (CKey × CItem) → List (CKey × CVal)
  | [] => []
  | (k, it) :: r => (k, itemToVal sp it) :: itemsToKvs sp r
/-- the element loop of `ArrayOfTables::into_array` -/
def tblsToVals (sp : Raw) : List CTbl → List CVal
  | [] => []
  | t :: r => tblToInl sp t :: tblsToVals sp r
end

/-- the pairs of an inline table as table items -/
def kvsToItems : List (CKey × CVal) → List (CKey × CItem)
  | [] => []
  | (k, v) :: r => (k, .value v) :: kvsToItems r

/-- `InlineTable::into_table`: `Table::with_pairs(items)`, `fmt()` -/
def inlToTbl (items : List (CKey × CVal)) : CTbl :=
  .mk (fmtItems (kvsToItems items)) false false none {} none

/-- every element is an inline table: their pair lists -/
def allInl : List CVal → Option (List (List (CKey × CVal)))
  | [] => some []
  | .inl items _ _ _ _ _ :: r => (allInl r).map fun l => items :: l
  | _ :: _ => none

/-- the item stored under a present key is converted in place -/
def convAt (k : Bytes) (f : CItem → Option CItem) (t : CTbl) : Option CTbl :=
  match clookup k t.items with
  | some it => (f it).map fun it' => t.setItems (creplace k it' t.items)
  | none => none

/-- `inl`: `Item::make_value` on a standard table -/
def convInl (sp : Raw) : CItem → Option CItem
  | .table t => some (.value (tblToInl sp t))
  | _ => none

/-- `aot2arr`: `Item::make_value` on an array of tables -/
def convAotArr (sp : Raw) : CItem → Option CItem
  | .aot ts s => some (.value (itemToVal sp (.aot ts s)))
  | _ => none

/-- `tbl`: `Item::into_table` on an inline table -/
def convTbl : CItem → Option CItem
  | .value (.inl items _ _ _ _ _) => some (.table (inlToTbl items))
  | _ => none

/-- `arr2aot`: `Item::into_array_of_tables` on a non-empty array of inline tables -/
def convArrAot : CItem → Option CItem
  | .value (.arr items _ _ _ _) =>
    if items.isEmpty then none
    else match allInl items with
      | some ls => some (.aot (ls.map inlToTbl) none)
      | none => none
  | _ => none

/-! ### the ops -/

inductive Op where
  | set (k : Bytes) (v : Sc)
  | del (k : Bytes)
  | newt (k : Bytes)
  | viv (k1 k2 : Bytes) (v : Sc)
  | sort
  | fmt
  | push (v : Sc)
  | ains (i : Nat) (v : Sc)
  | arepl (i : Nat) (v : Sc)
  | adel (i : Nat)
  | tpush
  | tdel (i : Nat)
  | inl (k : Bytes)
  | tbl (k : Bytes)
  | aot2arr (k : Bytes)
  | arr2aot (k : Bytes)
  | mv (k : Bytes) (p2 : List Seg)
  deriving Repr, DecidableEq

def noTbl : CTbl → Option CTbl := fun _ => none
def noVal : CVal → Option CVal := fun _ => none
def noAot : List CTbl → Option (List CTbl) := fun _ => none

/-- the texts an op creates, in the order they are appended to the arena -/
def Op.texts : Op → List Bytes
  | .set k v => [keyRepr k, v.repr]
  | .newt k => [keyRepr k]
  | .viv k1 k2 v => [keyRepr k1, keyRepr k2, v.repr]
  | .push v => [v.repr, [0x20]]
  | .ains _ v => [v.repr, [0x20]]
  | .arepl _ v => [v.repr]
  | .fmt => [[0x20]]
  | .inl _ => [[0x20]]
  | .aot2arr _ => [[0x20]]
  | .mv k _ => [keyRepr k, [0x20]]
  | _ => []

/-- append the texts; the arena and their `RawString`s -/
def allocAll : Bytes → List Bytes → Bytes × List Raw
  | inp, [] => (inp, [])
  | inp, t :: r =>
    let a := mkRaw inp t
    let b := allocAll a.1 r
    (b.1, a.2 :: b.2)

/-- the node updates of an op, given the `RawString`s of its texts and the length an array of
    tables has (for `tpush`) -/
def Op.upd (op : Op) (rs : List Raw) : Upd :=
  let r0 := rs.getD 0 .empty
  let r1 := rs.getD 1 .empty
  let r2 := rs.getD 2 .empty
  match op with
  | .set k v => ⟨tblSet k r0 r1 v, inlSet k r0 r1 v, noAot⟩
  | .del k => ⟨tblDel k, inlDel k, noAot⟩
  | .newt k => ⟨tblNewTable k r0, noVal, noAot⟩
  | .viv k1 k2 v => ⟨tblViv k1 k2 r0 r1 r2 v, noVal, noAot⟩
  | .sort => ⟨fun t => some (sortTbl t), inlSort, noAot⟩
  | .fmt => ⟨tblFmt, valFmt r0, noAot⟩
  | .push v => ⟨noTbl, arrPush r0 r1 v, noAot⟩
  | .ains i v => ⟨noTbl, arrInsert i r0 r1 v, noAot⟩
  | .arepl i v => ⟨noTbl, arrReplace i r0 v, noAot⟩
  | .adel i => ⟨noTbl, arrRemove i, noAot⟩
  | .tpush => ⟨noTbl, noVal, noAot⟩   -- see `applyOp`: the texts depend on the length
  | .tdel i => ⟨noTbl, noVal, aotRemove i⟩
  | .inl k => ⟨convAt k (convInl r0), noVal, noAot⟩
  | .tbl k => ⟨convAt k convTbl, noVal, noAot⟩
  | .aot2arr k => ⟨convAt k (convAotArr r0), noVal, noAot⟩
  | .arr2aot k => ⟨convAt k convArrAot, noVal, noAot⟩
  | .mv _ _ => ⟨noTbl, noVal, noAot⟩    -- see `applyOp`: two paths

/-- the edited document and its arena -/
structure St where
  inp : Bytes
  doc : CDoc

/-- one op at path `p` on the tree (arena handled by the caller) -/
def applyTree (op : Op) (rs : List Raw) (p : List Seg) (root : CTbl) : Option CTbl :=
  updTbl (op.upd rs) p root

/-- `tpush`: the new table holds `n = <len>` -/
def tpushUpd (inp : Bytes) (p : List Seg) (root : CTbl) : Option (Bytes × CTbl) :=
  match lookupTbl p root with
  | some (.aot ts _) =>
    let a := allocAll inp [[0x6E], Numbers.writeInt ts.length]
    (updTbl ⟨noTbl, noVal, aotPush (a.2.getD 0 .empty) (a.2.getD 1 .empty)⟩ p root).map fun r => (a.1, r)
  | _ => none

/-- a node as the item it is stored as -/
def nodeItem : Node → CItem
  | .tbl t => .table t
  | .val v => .value v
  | .aot ts sp => .aot ts sp

/-- `Table::insert(k, item)` -/
def tblPut (k : Bytes) (kr : Raw) (it : CItem) (t : CTbl) : Option CTbl :=
  some (t.setItems (cinsert (newKey k kr) it t.items))

/-- `<InlineTable as TableLike>::insert(k, item)`: `item.into_value()` first -/
def inlPut (k : Bytes) (kr sp : Raw) (it : CItem) : CVal → Option CVal
  | .inl items pre imp dot d s => some (.inl (cinsert (newKey k kr) (itemToVal sp it) items) pre imp dot d s)
  | _ => none

def keySeg (k : Bytes) : Seg := { key := some k, idx := none }

/-- `mv P K P2`: `let item = P.remove(K); P2.insert(K, item)`, `P2` resolved after the removal;
    `kr` denotes the default repr of `K`, `sp` a space -/
def mvTree (k : Bytes) (kr sp : Raw) (p p2 : List Seg) (root : CTbl) : Option CTbl :=
  match lookupTbl (p ++ [keySeg k]) root with
  | none => none
  | some n =>
    match updTbl ⟨tblDel k, inlDel k, noAot⟩ p root with
    | none => none
    | some r1 => updTbl ⟨tblPut k kr (nodeItem n), inlPut k kr sp (nodeItem n), noAot⟩ p2 r1

/-- one op; `none` = skipped (path does not resolve, wrong node type, index out of range) -/
def applyOp (st : St) (op : Op) (p : List Seg) : Option St :=
  match op with
  | .mv k p2 =>
    let a := allocAll st.inp op.texts
    (mvTree k (a.2.getD 0 .empty) (a.2.getD 1 .empty) p p2 st.doc.root).map fun r =>
      { inp := a.1, doc := { st.doc with root := r } }
  | .tpush =>
    (tpushUpd st.inp p st.doc.root).map fun (inp, r) => { inp := inp, doc := { st.doc with root := r } }
  | _ =>
    let a := allocAll st.inp op.texts
    (applyTree op a.2 p st.doc.root).map fun r => { inp := a.1, doc := { st.doc with root := r } }

/-- a skipped op leaves the state alone -/
def step (st : St) (e : Op × List Seg) : St := (applyOp st e.1 e.2).getD st

/-- a sequence of ops -/
def run (st : St) (es : List (Op × List Seg)) : St := es.foldl step st

/-- `parse::<DocumentMut>()`: the input is the initial arena -/
def start (s : Bytes) : Option St := (parseCstSlice s).map fun d => { inp := s, doc := d }

/-- `doc.to_string()` -/
def print (st : St) : Bytes := Encode.printDoc st.inp st.doc

end TomlVerif.Model.Edit
