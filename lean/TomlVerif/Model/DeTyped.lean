import TomlVerif.Model.DeText
import TomlVerif.Spec.Ieee
/-! C13, typed targets: a TYPE GRAMMAR, the description of what serde does for a type of each shape, and the two
    decoders that follow the method bodies of the two deserializer families.

  * `Ty` (with `Tys`, `Fields`, `Shape`, `Variants`) — the Rust target types: scalars, `Option`, `Vec`, tuples,
    `BTreeMap<String, _>`, derived structs / newtype structs / externally tagged enums, `Datetime` / `Date` /
    `Time`, `toml::Value`, `IgnoredAny`.
  * `Dec` — the decoded result, a plain tree mirroring `Ty`.
  * TRUSTED description of serde (serde 1.0.219 `de/impls.rs`, `de/value.rs`, `private/de.rs`; serde_derive 1.0.219
    `de.rs`), validated by the harness stream `tcheck` (a derived Rust type and `TySeed` of the same shape, side by
    side) and by the correspondence run (this model = `TySeed` on the real deserializers):
      - `deriveMethod`     which `deserialize_*` method the `Deserialize` impl of the type calls;
      - `visitScalar`      the `visit_bool / visit_i64 / visit_f64 / visit_string` of the primitive visitors
                           (everything else: the default "invalid type" error);
      - `missingField`     `serde::__private::de::missing_field`: `None` for `Option<_>`, an error otherwise;
      - `unitOnlyVariant`  an enum read from serde's `StringDeserializer` (`EnumAccess` with `UnitOnly`);
      - `decodeStrDe`      a whole `Deserialize` impl run on serde's `StringDeserializer`;
      - in the decoders: `Option` = `visit_some(d) ↦ T::deserialize(d)`; newtype struct = `visit_newtype_struct`;
        `Vec` / tuple = `visit_seq` (a tuple reads exactly its length); map = `visit_map` into a `BTreeMap`;
        derived struct = `visit_map` (known keys once, unknown keys read as `IgnoredAny`, absent fields through
        `#[serde(default)]` / `missing_field`) or `visit_seq` (fields in order); derived enum = `visit_enum`
        (variant name, then `unit_variant` / `newtype_variant` / `tuple_variant(n)` / `struct_variant(FIELDS)`).
    A derived struct's `visit_map` walks the ENTRIES and fills one slot per field; since all errors are one value here
    the model walks the FIELDS and looks each one up (`decodeEditFields`), after the duplicate test `dupField`.
  * `decodeEdit`  — `toml_edit::de::ValueDeserializer` (crates/toml_edit/src/de/value.rs, table.rs, array.rs,
    table_enum.rs, key.rs, datetime.rs) on an `Item`.
  * `decodeValue` — `impl Deserializer for toml::Value` (crates/toml/src/value.rs; `toml::Table` delegates to it,
    table.rs) on a `TV`.
  The places where the two families differ are switches, so that theorems can name them:
    `EditCfg.validateVariantKeys`   `TableEnumDeserializer::struct_variant` → `with_struct_key_validation()`
                                    (toml::Value's `MapEnumDeserializer::struct_variant` has no such test);
    `EditCfg.dtValueViaSerdeString` `DatetimeDeserializer::next_value_seed` hands the printed date-time to serde's
                                    `StringDeserializer` (toml::Value hands over a `Value::String`);
    `ValueCfg.trailingCheck`        `Value::deserialize_any`: "fewer elements in array" / "fewer elements in map" when the
                                    visitor leaves elements unread (toml_edit's `ArraySeqAccess` / `TableMapAccess` do not
                                    look).
  `editAsIs` / `valueAsIs` are the code as it stands (all three `true`). The fourth difference is not a switch: a
  `toml::Table` yields its entries in key order (`BTreeMap`) unless built with `preserve_order`; `toml_edit` yields
  document order. It shows in `tuple_variant` read from a table with the keys "0", "1", …. -/
namespace TomlVerif.Model.DeTyped
open TomlVerif TomlVerif.Model TomlVerif.Model.TomlValue TomlVerif.Model.DeRoutes TomlVerif.Model.DeText
open TomlVerif.Model.Datetime (Datetime)

/-! ## the type grammar -/

mutual
inductive Ty where
  | bool
  /-- `i8 … u64`: the range of the type (`u64` only up to `i64::MAX`: the deserializers call `visit_i64`) -/
  | int (lo hi : Int)
  | f64
  | f32
  | string
  | char
  | unit
  | datetime
  | date
  | time
  /-- `toml::Value` -/
  | value
  /-- `serde::de::IgnoredAny` -/
  | ignored
  | option (t : Ty)
  | seq (t : Ty)
  | tuple (ts : Tys)
  /-- `BTreeMap<String, T>` -/
  | map (t : Ty)
  /-- `struct N(T);` -/
  | newtype (t : Ty)
  /-- `struct S { name: T, … }`; the flag is `#[serde(default)]` on the field -/
  | struct (fs : Fields)
  /-- externally tagged `enum E { … }` -/
  | enum (vs : Variants)
inductive Tys where
  | nil
  | cons (t : Ty) (r : Tys)
inductive Fields where
  | nil
  | cons (name : Bytes) (t : Ty) (dflt : Bool) (r : Fields)
inductive Shape where
  | unit
  | newtype (t : Ty)
  | tuple (ts : Tys)
  | struct (fs : Fields)
inductive Variants where
  | nil
  | cons (name : Bytes) (s : Shape) (r : Variants)
end

instance : Inhabited Ty := ⟨.bool⟩

def Tys.length : Tys → Nat
  | .nil => 0
  | .cons _ r => r.length + 1

def Fields.length : Fields → Nat
  | .nil => 0
  | .cons _ _ _ r => r.length + 1

def Fields.hasName (k : Bytes) : Fields → Bool
  | .nil => false
  | .cons n _ _ r => n == k || r.hasName k

/-- the decoded value -/
inductive Dec where
  | bool (b : Bool)
  | int (n : Int)
  | f64 (bits : Nat)
  | f32 (bits : Nat)
  | str (s : Bytes)
  | char (s : Bytes)
  | unit
  | dt (d : Datetime)
  | value (v : TV)
  | ignored
  /-- `Default::default()` of a `#[serde(default)]` field -/
  | dflt
  | none
  | some (d : Dec)
  | seq (l : List Dec)
  | tuple (l : List Dec)
  /-- a `BTreeMap`: entries in key order -/
  | map (l : List (Bytes × Dec))
  | newtype (d : Dec)
  | struct (l : List (Bytes × Dec))
  | vUnit (name : Bytes)
  | vNewtype (name : Bytes) (d : Dec)
  | vTuple (name : Bytes) (l : List Dec)
  | vStruct (name : Bytes) (l : List (Bytes × Dec))

instance : Inhabited Dec := ⟨.unit⟩

/-- every failure of a `Deserialize` impl or of a deserializer (the message texts are not modelled) -/
inductive Err where
  | fail
  deriving DecidableEq, Repr

abbrev R := Except Err

def fail {α} : R α := .error .fail

/-- `Result::map` -/
def rmap {α β} (f : α → β) : R α → R β
  | .ok a => .ok (f a)
  | .error e => .error e

/-- `Option::ok_or(error)` -/
def ofOpt {α} : Option α → R α
  | some a => .ok a
  | none => fail

/-- one more element in front of the collected ones; the first error wins (all errors are one value) -/
def rcons {α} : R α → R (List α) → R (List α)
  | .ok a, .ok l => .ok (a :: l)
  | _, _ => fail

/-- `Iterator::map(f).collect::<Result<Vec<_>, _>>()` -/
def mapE {α β} (f : α → R β) : List α → R (List β)
  | [] => .ok []
  | a :: r => rcons (f a) (mapE f r)

/-- `BTreeMap::insert` for every entry -/
def collectSorted {α} : List (Bytes × α) → List (Bytes × α) → List (Bytes × α)
  | acc, [] => acc
  | acc, (k, v) :: r => collectSorted (sortedInsert k v acc) r

/-! ## the trusted description of serde -/

/-- which `deserialize_*` method `<T as Deserialize>::deserialize` calls (the methods the deserializers forward to
`deserialize_any` are one class, `other`) -/
def deriveMethod : Ty → Method
  | .option _ => .option
  | .newtype _ => .newtypeStruct
  | .struct _ => .struct
  | .datetime => .struct
  | .date => .struct
  | .time => .struct
  | .enum _ => .enum
  | .value => .any
  | _ => .other

/-- `v as f64` for an `i64` (round to nearest, ties to even) -/
def i64ToF64 (n : Int) : Nat :=
  if n == 0 then 0
  else if n < 0 then Spec.Ieee.signBit + Spec.Ieee.roundRat n.natAbs 1
  else Spec.Ieee.roundRat n.natAbs 1

/-- magnitude bits of the binary32 nearest to `p / q` (`p, q > 0`), infinity on overflow -/
def roundRat32 (p q : Nat) : Nat :=
  let k0 : Int := (Spec.Ieee.bitLength p : Int) - (Spec.Ieee.bitLength q : Int) - 24
  let scaled (k : Int) : Nat × Nat := if k ≥ 0 then (p, q * 2 ^ k.toNat) else (p * 2 ^ (-k).toNat, q)
  let k1 : Int :=
    let (a, b) := scaled k0
    if a / b ≥ 2 ^ 24 then k0 + 1 else if a / b < 2 ^ 23 then k0 - 1 else k0
  let k2 : Int :=
    let (a, b) := scaled k1
    if a / b ≥ 2 ^ 24 then k1 + 1 else if a / b < 2 ^ 23 then k1 - 1 else k1
  let k : Int := if k2 < -149 then -149 else k2
  let (a, b) := scaled k
  let mant := Spec.Ieee.divRoundEven a b
  let (mant, k) : Nat × Int := if mant ≥ 2 ^ 24 then (mant / 2, k + 1) else (mant, k)
  if mant < 2 ^ 23 then mant
  else
    let e : Int := k + 150
    if e ≥ 255 then 0x7F800000
    else e.toNat * 2 ^ 23 + (mant - 2 ^ 23)

/-- `v as f32` for an `i64` -/
def i64ToF32 (n : Int) : Nat :=
  if n == 0 then 0
  else if n < 0 then 0x80000000 + roundRat32 n.natAbs 1
  else roundRat32 n.natAbs 1

/-- `(v as f32).copysign(sign of v)` for an `f64` given by its bits; a NaN keeps only its sign -/
def f64ToF32 (bits : Nat) : Nat :=
  let sign := if bits ≥ Spec.Ieee.signBit then 0x80000000 else 0
  let mag := bits % Spec.Ieee.signBit
  let e := mag / 2 ^ 52
  let m := mag % 2 ^ 52
  if e == 2047 then (if m == 0 then sign + 0x7F800000 else sign + 0x7FC00000)
  else if mag == 0 then sign
  else if e == 0 then sign + roundRat32 m (2 ^ 1074)
  else if e ≥ 1075 then sign + roundRat32 ((2 ^ 52 + m) * 2 ^ (e - 1075)) 1
  else sign + roundRat32 (2 ^ 52 + m) (2 ^ (1075 - e))

/-- number of `char`s of a UTF-8 string -/
def charCount (s : Bytes) : Nat := (s.filter fun b => b &&& 0xC0 != 0x80).length

/-- the primitive visitors of serde's `impls.rs` on what a deserializer shows through `deserialize_any`:
`bool`: `visit_bool`; integers: `visit_i64` with the range test of `int_to_int!` / `int_to_uint!`; `f64` / `f32`:
`visit_f64` and `visit_i64` (`num_as_self!`); `String`: `visit_string`; `char`: `visit_str` of exactly one `char`;
`()`: `visit_unit` only, which no TOML deserializer calls -/
def visitScalar : Ty → Pres → R Dec
  | .bool, .bool b => .ok (.bool b)
  | .int lo hi, .i64 n => if lo ≤ n ∧ n ≤ hi then .ok (.int n) else fail
  | .f64, .f64 b => .ok (.f64 b)
  | .f64, .i64 n => .ok (.f64 (i64ToF64 n))
  | .f32, .f64 b => .ok (.f32 (f64ToF32 b))
  | .f32, .i64 n => .ok (.f32 (i64ToF32 n))
  | .string, .string s => .ok (.str s)
  | .char, .string s => if charCount s == 1 then .ok (.char s) else fail
  | _, _ => fail

/-- `serde::__private::de::missing_field::<T>`: `MissingFieldDeserializer` answers `deserialize_option` with
`visit_none` and everything else with the error -/
def missingField : Ty → R Dec
  | .option _ => .ok .none
  | _ => fail

/-- `impl Deserialize for Datetime` (`visit_map`: the private key, then the text), then the shape tests of
`impl Deserialize for Date` / `Time` -/
def datetimeTarget (ty : Ty) (p : Pres) : R Dec :=
  match decodeDatetime p with
  | none => fail
  | some d =>
    match ty with
    | .date => if d.date.isSome && d.time.isNone && d.offset.isNone then .ok (.dt d) else fail
    | .time => if d.date.isNone && d.time.isSome && d.offset.isNone then .ok (.dt d) else fail
    | _ => .ok (.dt d)

/-- a derived enum read through `visit_enum(StringDeserializer)`: the variant of that name, which must be a unit
variant (`UnitOnly::newtype_variant_seed` … are "invalid type" errors) -/
def unitOnlyVariant : Variants → Bytes → R Dec
  | .nil, _ => fail
  | .cons n s r, k =>
    if n == k then (match s with | .unit => .ok (.vUnit n) | _ => fail) else unitOnlyVariant r k

/-- `<T as Deserialize>::deserialize(StringDeserializer(s))` (serde `de/value.rs`): `deserialize_any` is
`visit_string`, `deserialize_enum` is `visit_enum(self)`, every other method forwards to `deserialize_any` — so
`Option` (no `visit_string`), newtype structs, sequences, maps, structs and date-times fail -/
def decodeStrDe : Ty → Bytes → R Dec
  | .value, s => .ok (.value (.str s))
  | .ignored, _ => .ok .ignored
  | .enum vs, s => unitOnlyVariant vs s
  | .option _, _ => fail
  | .newtype _, _ => fail
  | .seq _, _ => fail
  | .tuple _, _ => fail
  | .map _, _ => fail
  | .struct _, _ => fail
  | .datetime, _ => fail
  | .date, _ => fail
  | .time, _ => fail
  | t, s => visitScalar t (.string s)

/-- `key.parse::<usize>()` as far as the comparison with a small index needs it: an optional `+`, then digits -/
def parseUsize (k : Bytes) : Option Nat :=
  let ds := match k with
    | 0x2B :: r => r
    | _ => k
  if ds.isEmpty || !ds.all TomlVerif.Spec.isDigit then none else some (TomlVerif.Model.Datetime.natOfDigits ds)

/-- the keys of a table read as a tuple variant: the `index`-th key must parse to `index` -/
def indexKeys {α} : Nat → List (Bytes × α) → Bool
  | _, [] => true
  | i, (k, _) :: r => parseUsize k == some i && indexKeys (i + 1) r

/-- derive's `duplicate_field`: a key naming a field occurs twice -/
def dupField (fs : Fields) : List Bytes → Bool
  | [] => false
  | k :: r => (fs.hasName k && r.contains k) || dupField fs r

/-! ## `toml_edit::de::ValueDeserializer` -/

structure EditCfg where
  validateVariantKeys : Bool
  dtValueViaSerdeString : Bool
  deriving DecidableEq, Repr

/-- the code as it stands -/
def editAsIs : EditCfg := ⟨true, true⟩
def editLenient : EditCfg := ⟨false, false⟩

/-- `Item::Table` / `Value::InlineTable` → `TableDeserializer` (both hold `KeyValuePairs`) -/
def itemEntries : Item → Option (List (Bytes × Item))
  | .table t => some t.items
  | .value (.inl items _ _) => some (items.map fun kv => (kv.1, Item.value kv.2))
  | _ => none

/-- `Value::Array` / `Item::ArrayOfTables` → `ArrayDeserializer` (both hold `Vec<Item>`) -/
def itemElems : Item → Option (List Item)
  | .value (.arr l) => some (l.map Item.value)
  | .aot ts => some (ts.map Item.table)
  | _ => none

/-- what a `MapAccess` of `toml_edit` hands to `next_value_seed`: a `ValueDeserializer` on an item, or (for
`DatetimeDeserializer`) serde's `StringDeserializer` on the printed date-time -/
inductive ESrc where
  | item (it : Item)
  | str (s : Bytes)

/-- the `visit_map` arms of `ValueDeserializer::deserialize_any`: `TableMapAccess` or `DatetimeDeserializer` -/
def editMapEntries : Item → Option (List (Bytes × ESrc))
  | .value (.dt d) => some [(FIELD, .str (Datetime.Std.display d))]
  | it => (itemEntries it).map fun es => es.map fun kv => (kv.1, ESrc.item kv.2)

def strItem (s : Bytes) : Item := .value (.str s)

mutual
/-- `TySeed(ty).deserialize(ValueDeserializer::new(item))` -/
def decodeEdit (c : EditCfg) (fl : Flavour) : Ty → Item → R Dec
  -- `deserialize_bool` … are forwarded to `deserialize_any`
  | .bool, it => visitScalar .bool (presOfItem it)
  | .int lo hi, it => visitScalar (.int lo hi) (presOfItem it)
  | .f64, it => visitScalar .f64 (presOfItem it)
  | .f32, it => visitScalar .f32 (presOfItem it)
  | .string, it => visitScalar .string (presOfItem it)
  | .char, it => visitScalar .char (presOfItem it)
  | .unit, it => visitScalar .unit (presOfItem it)
  -- `deserialize_struct(NAME, [FIELD])`: a date-time item goes to `visit_map(DatetimeDeserializer)` at once,
  -- anything else to `deserialize_any` (no key validation outside struct variants)
  | .datetime, it =>
    match it with
    | .value (.dt d) => datetimeTarget .datetime (dtMap d)
    | _ => datetimeTarget .datetime (presOfItem it)
  | .date, it =>
    match it with
    | .value (.dt d) => datetimeTarget .date (dtMap d)
    | _ => datetimeTarget .date (presOfItem it)
  | .time, it =>
    match it with
    | .value (.dt d) => datetimeTarget .time (dtMap d)
    | _ => datetimeTarget .time (presOfItem it)
  -- `Value::deserialize` calls `deserialize_any`
  | .value, it =>
    rmap .value (ofOpt (visitValue fl false (presOfItem it)))
  | .ignored, _ => .ok .ignored
  -- `deserialize_option`: `visitor.visit_some(self)`
  | .option t, it =>
    rmap .some (decodeEdit c fl t it)
  -- `deserialize_newtype_struct`: `visitor.visit_newtype_struct(self)`
  | .newtype t, it =>
    rmap .newtype (decodeEdit c fl t it)
  -- `deserialize_seq` → `deserialize_any`: arrays and arrays of tables are `visit_seq(ArraySeqAccess)`
  | .seq t, it =>
    match itemElems it with
    | some l =>
      rmap .seq (mapE (decodeEdit c fl t) l)
    | none => fail
  -- `deserialize_tuple` → `deserialize_any`; elements the visitor leaves unread are not looked at
  | .tuple ts, it =>
    match itemElems it with
    | some l =>
      rmap .tuple (decodeEditTys c fl ts l)
    | none => fail
  -- `deserialize_map` → `deserialize_any`: tables are `visit_map(TableMapAccess)`, a date-time is
  -- `visit_map(DatetimeDeserializer)`
  | .map t, it =>
    match editMapEntries it with
    | some es =>
      rmap (fun ds => .map (collectSorted [] ds)) (mapE (fun kv : Bytes × ESrc =>
          rmap (fun d => (kv.1, d))
            (match kv.2 with
             | .item i => decodeEdit c fl t i
             | .str s => if c.dtValueViaSerdeString then decodeStrDe t s else decodeEdit c fl t (strItem s))) es)
    | none => fail
  -- `deserialize_struct(name, fields)`: not `Spanned`, not the date-time name; then `deserialize_any`
  | .struct fs, it =>
    match editMapEntries it with
    | some es =>
      if dupField fs (es.map Prod.fst) then fail else
      rmap .struct (decodeEditFields c fl fs es)
    | none =>
      match itemElems it with
      | some l =>
        rmap .struct (decodeEditFieldsSeq c fl fs l)
      | none => fail
  -- `deserialize_enum`: a string is `visit_enum(StringDeserializer)`; an inline table or a table must hold
  -- exactly one entry and is `visit_enum(TableMapAccess)`; anything else "wanted string or table"
  | .enum vs, it =>
    match it with
    | .value (.str s) => unitOnlyVariant vs s
    | _ =>
      match itemEntries it with
      | some [(k, payload)] => decodeEditVariants c fl vs k payload
      | _ => fail
/-- a tuple visitor's `visit_seq`: one element per component, `invalid_length` when one is missing -/
def decodeEditTys (c : EditCfg) (fl : Flavour) : Tys → List Item → R (List Dec)
  | .nil, _ => .ok []
  | .cons _ _, [] => fail
  | .cons t r, i :: l =>
    rcons (decodeEdit c fl t i) (decodeEditTys c fl r l)
/-- a derived struct's `visit_map`, field by field -/
def decodeEditFields (c : EditCfg) (fl : Flavour) : Fields → List (Bytes × ESrc) → R (List (Bytes × Dec))
  | .nil, _ => .ok []
  | .cons name t dflt r, es =>
    rcons (rmap (fun d => (name, d))
        (match alookup name es with
         | some (.item i) => decodeEdit c fl t i
         | some (.str s) => if c.dtValueViaSerdeString then decodeStrDe t s else decodeEdit c fl t (strItem s)
         | none => if dflt then .ok .dflt else missingField t))
      (decodeEditFields c fl r es)
/-- a derived struct's `visit_seq`: the fields in order; a missing element is `Default::default()` for a
`#[serde(default)]` field and `invalid_length` otherwise -/
def decodeEditFieldsSeq (c : EditCfg) (fl : Flavour) : Fields → List Item → R (List (Bytes × Dec))
  | .nil, _ => .ok []
  | .cons name _ dflt r, [] =>
    if dflt then
      rmap (fun ds => (name, Dec.dflt) :: ds) (decodeEditFieldsSeq c fl r [])
    else fail
  | .cons name t _ r, i :: l =>
    rcons (rmap (fun d => (name, d)) (decodeEdit c fl t i)) (decodeEditFieldsSeq c fl r l)
/-- `TableMapAccess::variant_seed`: the key names the variant (`unknown_variant` when there is none) -/
def decodeEditVariants (c : EditCfg) (fl : Flavour) : Variants → Bytes → Item → R Dec
  | .nil, _, _ => fail
  | .cons name s r, k, p => if name == k then decodeEditShape c fl s name p else decodeEditVariants c fl r k p
/-- `TableEnumDeserializer` (table_enum.rs) -/
def decodeEditShape (c : EditCfg) (fl : Flavour) : Shape → Bytes → Item → R Dec
  -- `unit_variant`: an empty array, array of tables, table or inline table
  | .unit, n, p =>
    match itemElems p with
    | some l => if l.isEmpty then .ok (.vUnit n) else fail
    | none =>
      match itemEntries p with
      | some es => if es.isEmpty then .ok (.vUnit n) else fail
      | none => fail
  -- `newtype_variant_seed`: `seed.deserialize(ValueDeserializer::new(value))`
  | .newtype t, n, p =>
    rmap (.vNewtype n) (decodeEdit c fl t p)
  -- `tuple_variant(len)`: an array of that length, or a table whose keys are "0", "1", … in that order
  | .tuple ts, n, p =>
    match itemElems p with
    | some l =>
      if l.length == ts.length then
        rmap (.vTuple n) (decodeEditTys c fl ts l)
      else fail
    | none =>
      match itemEntries p with
      | some es =>
        if indexKeys 0 es && es.length == ts.length then
          rmap (.vTuple n) (decodeEditTys c fl ts (es.map Prod.snd))
        else fail
      | none => fail
  -- `struct_variant(fields)`: `ValueDeserializer::new(value).with_struct_key_validation().deserialize_struct("", fields, …)`
  | .struct fs, n, p =>
    if c.validateVariantKeys &&
        (match itemEntries p with
         | some es => es.any fun kv => !fs.hasName kv.1
         | none => false) then fail
    else
      match editMapEntries p with
      | some es =>
        if dupField fs (es.map Prod.fst) then fail else
        rmap (.vStruct n) (decodeEditFields c fl fs es)
      | none =>
        match itemElems p with
        | some l =>
          rmap (.vStruct n) (decodeEditFieldsSeq c fl fs l)
        | none => fail
end

/-! ## `impl Deserializer for toml::Value` -/

structure ValueCfg where
  trailingCheck : Bool
  deriving DecidableEq, Repr

/-- the code as it stands -/
def valueAsIs : ValueCfg := ⟨true⟩
def valueLenient : ValueCfg := ⟨false⟩

/-- the `visit_map` arms of `Value::deserialize_any`: a table, or the one-entry table built for a date-time -/
def valueMapEntries : TV → Option (List (Bytes × TV))
  | .dt d => some [(FIELD, .str (Datetime.Std.display d))]
  | .tbl es => some es
  | _ => none

mutual
/-- `TySeed(ty).deserialize(value)` for a `toml::Value` -/
def decodeValue (c : ValueCfg) (fl : Flavour) : Ty → TV → R Dec
  | .bool, v => visitScalar .bool (presValue currentDtAsMap v)
  | .int lo hi, v => visitScalar (.int lo hi) (presValue currentDtAsMap v)
  | .f64, v => visitScalar .f64 (presValue currentDtAsMap v)
  | .f32, v => visitScalar .f32 (presValue currentDtAsMap v)
  | .string, v => visitScalar .string (presValue currentDtAsMap v)
  | .char, v => visitScalar .char (presValue currentDtAsMap v)
  | .unit, v => visitScalar .unit (presValue currentDtAsMap v)
  -- `struct` is in the forward list: `deserialize_any`. The `Datetime` visitor reads one entry; on a table
  -- with more entries the rest are "fewer elements in map" (the date-time arm itself has no such test)
  | .datetime, v =>
    match v with
    | .tbl es => if c.trailingCheck && es.length > 1 then fail else datetimeTarget .datetime (presValue currentDtAsMap v)
    | _ => datetimeTarget .datetime (presValue currentDtAsMap v)
  | .date, v =>
    match v with
    | .tbl es => if c.trailingCheck && es.length > 1 then fail else datetimeTarget .date (presValue currentDtAsMap v)
    | _ => datetimeTarget .date (presValue currentDtAsMap v)
  | .time, v =>
    match v with
    | .tbl es => if c.trailingCheck && es.length > 1 then fail else datetimeTarget .time (presValue currentDtAsMap v)
    | _ => datetimeTarget .time (presValue currentDtAsMap v)
  | .value, v =>
    rmap .value (ofOpt (visitValue fl c.trailingCheck (presValue currentDtAsMap v)))
  | .ignored, _ => .ok .ignored
  | .option t, v =>
    rmap .some (decodeValue c fl t v)
  | .newtype t, v =>
    rmap .newtype (decodeValue c fl t v)
  | .seq t, v =>
    match v with
    | .arr l =>
      rmap .seq (mapE (decodeValue c fl t) l)
    | _ => fail
  -- `Value::Array`: after `visit_seq`, `remaining != 0` is "fewer elements in array"
  | .tuple ts, v =>
    match v with
    | .arr l =>
      if c.trailingCheck && l.length > ts.length then fail else
      rmap .tuple (decodeValueTys c fl ts l)
    | _ => fail
  | .map t, v =>
    match valueMapEntries v with
    | some es =>
      rmap (fun ds => .map (collectSorted [] ds))
        (mapE (fun kv : Bytes × TV => rmap (fun d => (kv.1, d)) (decodeValue c fl t kv.2)) es)
    | none => fail
  | .struct fs, v =>
    match valueMapEntries v with
    | some es =>
      if dupField fs (es.map Prod.fst) then fail else
      rmap .struct (decodeValueFields c fl fs es)
    | none =>
      match v with
      | .arr l =>
        if c.trailingCheck && l.length > fs.length then fail else
        rmap .struct (decodeValueFieldsSeq c fl fs l)
      | _ => fail
  -- `deserialize_enum`: a string, or a table with exactly one entry (`MapDeserializer` as `EnumAccess`)
  | .enum vs, v =>
    match v with
    | .str s => unitOnlyVariant vs s
    | .tbl [(k, payload)] => decodeValueVariants c fl vs k payload
    | _ => fail
def decodeValueTys (c : ValueCfg) (fl : Flavour) : Tys → List TV → R (List Dec)
  | .nil, _ => .ok []
  | .cons _ _, [] => fail
  | .cons t r, i :: l =>
    rcons (decodeValue c fl t i) (decodeValueTys c fl r l)
def decodeValueFields (c : ValueCfg) (fl : Flavour) : Fields → List (Bytes × TV) → R (List (Bytes × Dec))
  | .nil, _ => .ok []
  | .cons name t dflt r, es =>
    rcons (rmap (fun d => (name, d))
        (match alookup name es with
         | some i => decodeValue c fl t i
         | none => if dflt then .ok .dflt else missingField t))
      (decodeValueFields c fl r es)
def decodeValueFieldsSeq (c : ValueCfg) (fl : Flavour) : Fields → List TV → R (List (Bytes × Dec))
  | .nil, _ => .ok []
  | .cons name _ dflt r, [] =>
    if dflt then
      rmap (fun ds => (name, Dec.dflt) :: ds) (decodeValueFieldsSeq c fl r [])
    else fail
  | .cons name t _ r, i :: l =>
    rcons (rmap (fun d => (name, d)) (decodeValue c fl t i)) (decodeValueFieldsSeq c fl r l)
def decodeValueVariants (c : ValueCfg) (fl : Flavour) : Variants → Bytes → TV → R Dec
  | .nil, _, _ => fail
  | .cons name s r, k, p => if name == k then decodeValueShape c fl s name p else decodeValueVariants c fl r k p
/-- `MapEnumDeserializer` (value.rs) -/
def decodeValueShape (c : ValueCfg) (fl : Flavour) : Shape → Bytes → TV → R Dec
  | .unit, n, p =>
    match p with
    | .arr l => if l.isEmpty then .ok (.vUnit n) else fail
    | .tbl es => if es.isEmpty then .ok (.vUnit n) else fail
    | _ => fail
  | .newtype t, n, p =>
    rmap (.vNewtype n) (decodeValue c fl t p)
  -- `tuple_variant`: `deserialize_seq(values.into_deserializer(), visitor)` on serde's `SeqDeserializer`, whose
  -- `end()` test cannot fire: the length was compared first
  | .tuple ts, n, p =>
    match p with
    | .arr l =>
      if l.length == ts.length then
        rmap (.vTuple n) (decodeValueTys c fl ts l)
      else fail
    | .tbl es =>
      if indexKeys 0 es && es.length == ts.length then
        rmap (.vTuple n) (decodeValueTys c fl ts (es.map Prod.snd))
      else fail
    | _ => fail
  -- `struct_variant`: `deserialize_struct(self.value.into_deserializer(), "", fields, visitor)` = `deserialize_any`
  | .struct fs, n, p =>
    match valueMapEntries p with
    | some es =>
      if dupField fs (es.map Prod.fst) then fail else
      rmap (.vStruct n) (decodeValueFields c fl fs es)
    | none =>
      match p with
      | .arr l =>
        if c.trailingCheck && l.length > fs.length then fail else
        rmap (.vStruct n) (decodeValueFieldsSeq c fl fs l)
      | _ => fail
end

/-! ## the routes -/

/-- the methods of `toml_edit::de::Deserializer` / `ValueDeserializer` run `TySeed` as `decodeEdit` does when called
through the method the type calls; any other pairing does not occur -/
def editEntry (c : EditCfg) (fl : Flavour) (m : Method) (ty : Ty) (it : Item) : R Dec :=
  if m == editDispatch (deriveMethod ty) then decodeEdit c fl ty it else fail

/-- `toml_edit::de::from_str` / `from_slice` / `from_document` / `Deserializer::parse`: the root table as an item -/
def editRoute (c : EditCfg) (fl : Flavour) (ty : Ty) (it : Item) : R Dec :=
  editEntry c fl (editDispatch (deriveMethod ty)) ty it

/-- `toml::de::Deserializer` / `toml::de::ValueDeserializer`: each method parses and calls the method of the same
name of the inner `toml_edit` deserializer (`tomlWrapperDispatch`) -/
def tomlRoute (c : EditCfg) (fl : Flavour) (ty : Ty) (it : Item) : R Dec :=
  editEntry c fl (tomlWrapperDispatch (deriveMethod ty)) ty it

/-- `toml::from_str::<toml::Value>(text)?.try_into::<T>()`: the parsed tree through `Value`'s visitor into the
map flavour of the build, then `impl Deserializer for toml::Value` -/
def valueRoute (c : ValueCfg) (fl : Flavour) (ty : Ty) (it : Item) : R Dec :=
  match visitValue fl false (presOfItem it) with
  | some v => decodeValue c fl ty v
  | none => fail

/-- `toml::from_str::<toml::Table>(text)?.try_into::<T>()` (`impl Deserializer for Table` delegates to `Value::Table`) -/
def tableRoute (c : ValueCfg) (fl : Flavour) (ty : Ty) (it : Item) : R Dec :=
  match visitTable fl false (presOfItem it) with
  | some es => decodeValue c fl ty (.tbl es)
  | none => fail

end TomlVerif.Model.DeTyped
