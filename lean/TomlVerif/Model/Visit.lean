import TomlVerif.Model.Tree
/-! # Model of `toml_edit::visit` / `toml_edit::visit_mut` (default walks)

Transliteration of crates/toml_edit/src/visit.rs and visit_mut.rs. The visitor modelled is the one
the harness uses: every hook `visit_x` first records one event and then calls the default free
function `visit_x` of the module, which dispatches to the hooks of the children. The visitor's
`&mut self` state (the event list) becomes the returned list.

Function by function (Rust name → model):
* `visit_document`        → `visitDocument`   : `v.visit_table(node.as_table())`
* `visit_item`            → `visitItem`       : match on `Item::{None, Value, Table, ArrayOfTables}` (a decoded tree
                                                 holds no `Item::None`)
* `visit_table`           → `visitTable`      : `v.visit_table_like(node)`; the `tablelike` event and the loop
                                                 `for (key, item) in node.iter()` of `visit_table_like` are
                                                 `visitTableItems`
* `visit_table_like_kv`   → the `.kv k ::` step of `visitTableItems` / `visitInlineItems`: `v.visit_item(node)`
* `visit_array_of_tables` → `.aot ::` + `visitAotItems`: `for table in node.iter() { v.visit_table(table) }`
* `visit_value`           → `visitValue`      : match on the seven `Value` variants
* `visit_array`           → `.array ::` + `visitArrayItems`: `for value in node.iter() { v.visit_value(value) }`
* `visit_inline_table`    → `.inline :: .tablelike ::` + `visitInlineItems`: `v.visit_table_like(node)`, whose
                            `TableLike::iter()` for `InlineTable` yields `(&str, &Item)` with the values wrapped as
                            `Item::Value`, so `visit_table_like_kv` and `visit_item` fire inside values too
* `visit_boolean` … `visit_string` → the scalar events (their default functions are empty).

The list-walking helpers exist because `Val`, `Item`, `Tbl` are nested inductives (structural recursion). -/
namespace TomlVerif.Model.Visit
open TomlVerif TomlVerif.Model

/-- one call of a visitor hook -/
inductive Ev where
  | doc | item | table | inline | tablelike
  | kv (k : Bytes)
  | aot | array | value
  | bool (b : Bool)
  | dt (d : Datetime.Datetime)
  | float (bits : Nat)
  | int (n : Int)
  | str (s : Bytes)
deriving DecidableEq

/-! ## `visit.rs`: the read-only walk -/

mutual
def visitValue : Val → List Ev
  | .str s => [.value, .str s]
  | .int n => [.value, .int n]
  | .float b => [.value, .float b]
  | .bool b => [.value, .bool b]
  | .dt d => [.value, .dt d]
  | .arr vs => .value :: .array :: visitArrayItems vs
  | .inl kvs _ _ => .value :: .inline :: .tablelike :: visitInlineItems kvs
def visitArrayItems : List Val → List Ev
  | [] => []
  | v :: r => visitValue v ++ visitArrayItems r
def visitInlineItems : List (Bytes × Val) → List Ev
  | [] => []
  | (k, v) :: r => (.kv k :: .item :: visitValue v) ++ visitInlineItems r
end

mutual
def visitItem : Item → List Ev
  | .value v => .item :: visitValue v
  | .table t => .item :: visitTable t
  | .aot ts => .item :: .aot :: visitAotItems ts
def visitTable : Tbl → List Ev
  | .mk items _ _ _ => .table :: .tablelike :: visitTableItems items
def visitTableItems : List (Bytes × Item) → List Ev
  | [] => []
  | (k, i) :: r => (.kv k :: visitItem i) ++ visitTableItems r
def visitAotItems : List Tbl → List Ev
  | [] => []
  | t :: r => visitTable t ++ visitAotItems r
end

def visitDocument (t : Tbl) : List Ev := .doc :: visitTable t

/-- the trace of the default read-only walk -/
def trace (t : Tbl) : List Ev := visitDocument t

/-! ## `visit_mut.rs`: the mutable walk

Same functions with `_mut`; `iter_mut()` instead of `iter()`. The walk may change the tree, so every
function returns the new node together with the events. `h` is the body of an overriding
`visit_integer_mut` hook (`*node = Formatted::new(h(*node.value()))`); `h = id` is the default (empty)
hook. The recorded event carries the value the hook was called with. -/

mutual
def visitValueMut (h : Int → Int) : Val → Val × List Ev
  | .str s => (.str s, [.value, .str s])
  | .int n => (.int (h n), [.value, .int n])
  | .float b => (.float b, [.value, .float b])
  | .bool b => (.bool b, [.value, .bool b])
  | .dt d => (.dt d, [.value, .dt d])
  | .arr vs =>
    let r := visitArrayItemsMut h vs
    (.arr r.1, .value :: .array :: r.2)
  | .inl kvs i d =>
    let r := visitInlineItemsMut h kvs
    (.inl r.1 i d, .value :: .inline :: .tablelike :: r.2)
def visitArrayItemsMut (h : Int → Int) : List Val → List Val × List Ev
  | [] => ([], [])
  | v :: r =>
    let a := visitValueMut h v
    let b := visitArrayItemsMut h r
    (a.1 :: b.1, a.2 ++ b.2)
def visitInlineItemsMut (h : Int → Int) : List (Bytes × Val) → List (Bytes × Val) × List Ev
  | [] => ([], [])
  | (k, v) :: r =>
    let a := visitValueMut h v
    let b := visitInlineItemsMut h r
    ((k, a.1) :: b.1, (.kv k :: .item :: a.2) ++ b.2)
end

mutual
def visitItemMut (h : Int → Int) : Item → Item × List Ev
  | .value v =>
    let r := visitValueMut h v
    (.value r.1, .item :: r.2)
  | .table t =>
    let r := visitTableMut h t
    (.table r.1, .item :: r.2)
  | .aot ts =>
    let r := visitAotItemsMut h ts
    (.aot r.1, .item :: .aot :: r.2)
def visitTableMut (h : Int → Int) : Tbl → Tbl × List Ev
  | .mk items i d p =>
    let r := visitTableItemsMut h items
    (.mk r.1 i d p, .table :: .tablelike :: r.2)
def visitTableItemsMut (h : Int → Int) : List (Bytes × Item) → List (Bytes × Item) × List Ev
  | [] => ([], [])
  | (k, it) :: r =>
    let a := visitItemMut h it
    let b := visitTableItemsMut h r
    ((k, a.1) :: b.1, (.kv k :: a.2) ++ b.2)
def visitAotItemsMut (h : Int → Int) : List Tbl → List Tbl × List Ev
  | [] => ([], [])
  | t :: r =>
    let a := visitTableMut h t
    let b := visitAotItemsMut h r
    (a.1 :: b.1, a.2 ++ b.2)
end

def visitDocumentMut (h : Int → Int) (t : Tbl) : Tbl × List Ev :=
  let r := visitTableMut h t
  (r.1, .doc :: r.2)

/-- the trace of the default mutable walk (no hook overridden) -/
def traceMut (t : Tbl) : List Ev := (visitDocumentMut id t).2

/-- the document after a `VisitMut` that overrides only `visit_integer_mut` with `n ↦ f n` -/
def rewriteInts (f : Int → Int) (t : Tbl) : Tbl := (visitDocumentMut f t).1

/-- the harness's rewriting visitor: `checked_add(1)`, unchanged when it does not fit an `i64` -/
def incr (n : Int) : Int := if n < 9223372036854775807 then n + 1 else n

end TomlVerif.Model.Visit
