import TomlVerif.Model.Value
import TomlVerif.Model.State
/-! Model of `parser/document.rs` + `parser/table.rs`: the line driver. -/
namespace TomlVerif.Model.Doc
open TomlVerif TomlVerif.Spec TomlVerif.Model TomlVerif.Model.Strings TomlVerif.Model.Value TomlVerif.Model.State

/-- `parse_keyval` + `on_keyval` (under `cut_err`): any failure rejects the document -/
def keyvalLine (st : ParseState) (s : Bytes) : Option (ParseState × Bytes) :=
  match keyPath s with
  | .ok ks r =>
    -- check_recursion_nested(path.len() - 1, …)
    if LIMIT ≤ ks.length - 1 then none else
    match r with
    | 0x3D :: r1 =>
      match value (3 * r1.length + 4) (ks.length - 1) (dropWs r1) with
      | .ok v r2 =>
        match lineTrailing r2 with
        | .ok () r3 =>
          match Value.splitLast ks with
          | some (path, key) => (onKeyval st path key v).map fun st' => (st', r3)
          | none => none
        | _ => none
      | _ => none
    | _ => none
  | _ => none

/-- `table`: `[[`-dispatch, `cut_err(key)`, closing bracket(s), `cut_err(line_trailing)`, then the state callback -/
def tableLine (st : ParseState) (s : Bytes) : Option (ParseState × Bytes) :=
  match s with
  | 0x5B :: 0x5B :: r =>
    match keyPath r with
    | .ok ks r1 =>
      match r1 with
      | 0x5D :: 0x5D :: r2 =>
        match lineTrailing r2 with
        | .ok () r3 => (onArrayHeader st ks).map fun st' => (st', r3)
        | _ => none
      | _ => none
    | _ => none
  | 0x5B :: r =>
    -- `peek(take(2))` needs two bytes
    if r.isEmpty then none else
    match keyPath r with
    | .ok ks r1 =>
      match r1 with
      | 0x5D :: r2 =>
        match lineTrailing r2 with
        | .ok () r3 => (onStdHeader st ks).map fun st' => (st', r3)
        | _ => none
      | _ => none
    | _ => none
  | _ => none

/-- the `repeat(0.., (dispatch, parse_ws))` loop followed by `eof` -/
def lines : Nat → ParseState → Bytes → Option ParseState
  | 0, _, _ => none
  | fuel + 1, st, s =>
    match s with
    | [] => some st
    | b :: r =>
      if b == 0x23 then
        -- cut_err(parse_comment): comment then newline or eof
        let r1 := dropComment r
        match r1 with
        | [] => some st
        | _ => match newline? r1 with
          | some r2 => lines fuel st (dropWs r2)
          | none => none
      else if b == 0x5B then
        match tableLine st s with
        | some (st', r1) => lines fuel st' (dropWs r1)
        | none => none
      else if b == 0x0A || b == 0x0D then
        match newline? s with
        | some r1 => lines fuel st (dropWs r1)
        | none => none      -- the loop ends, `eof` fails
      else
        match keyvalLine st s with
        | some (st', r1) => lines fuel st' (dropWs r1)
        | none => none

def stripBom : Bytes → Bytes
  | 0xEF :: 0xBB :: 0xBF :: r => r
  | s => s

/-- `parse_document` on UTF-8 text: the decoded root table, or `none` for any error -/
def parseDocument (s : Bytes) : Option Tbl :=
  let s1 := dropWs (stripBom s)
  match lines (s1.length + 1) {} s1 with
  | some st => intoDocument st
  | none => none

/-- the slice entry point: UTF-8 validation first -/
def parseSlice (b : Bytes) : Option Tbl :=
  if Utf8.valid b then parseDocument b else none

end TomlVerif.Model.Doc
