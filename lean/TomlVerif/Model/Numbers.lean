import TomlVerif.Spec.Classes
import TomlVerif.Spec.Ieee
/-! Model of `crates/toml_edit/src/parser/numbers.rs` (booleans, integers in four bases, floats)
    and of the number writers of `crates/toml_write/src/value.rs`. -/
namespace TomlVerif.Model.Numbers
open TomlVerif TomlVerif.Spec

/-- `*( D / underscore D )` after a first digit: collects the digits (underscores dropped);
    an underscore not followed by a digit is a `cut_err` failure -/
def runTail (isD : Byte → Bool) : Bytes → Bytes → Res Bytes
  | [], acc => .ok acc []
  | b :: r, acc =>
    if isD b then runTail isD r (acc ++ [b])
    else if b == 0x5F then
      match r with
      | d :: r' => if isD d then runTail isD r' (acc ++ [d]) else .cut
      | [] => .cut
    else .ok acc (b :: r)

/-- `zero_prefixable_int` -/
def zeroPrefixableInt : Bytes → Res Bytes
  | b :: r => if isDigit b then runTail isDigit r [b] else .bt
  | [] => .bt

/-- `dec_int`: optional sign, then `1-9` + tail, or a single digit. Returns (negative?, hasSign?, digits). -/
def decInt (s : Bytes) : Res (Bool × Bool × Bytes) :=
  let (neg, signed, s') : Bool × Bool × Bytes :=
    match s with
    | 0x2B :: r => (false, true, r)
    | 0x2D :: r => (true, true, r)
    | _ => (false, false, s)
  match s' with
  | b :: r =>
    if isDigit1_9 b then (runTail isDigit r [b]).map fun ds => (neg, signed, ds)
    else if isDigit b then .ok (neg, signed, [b]) r
    else .bt
  | [] => .bt

def digitVal (b : Byte) : Nat :=
  if isDigit b then b.toNat - 0x30
  else if inR 0x41 0x46 b then b.toNat - 0x37
  else if inR 0x61 0x66 b then b.toNat - 0x57
  else 0

def natOfDigitsBase (base : Nat) (ds : Bytes) : Nat := ds.foldl (fun acc b => acc * base + digitVal b) 0

def i64Min : Int := -9223372036854775808
def i64Max : Int := 9223372036854775807
def inI64 (n : Int) : Bool := i64Min ≤ n && n ≤ i64Max

/-- prefixed integer `0x` / `0o` / `0b`: everything after the prefix is under `cut_err` -/
def prefixedInt (isD : Byte → Bool) (base : Nat) (afterPrefix : Bytes) : Res Int :=
  match afterPrefix with
  | b :: r =>
    if isD b then
      match runTail isD r [b] with
      | .ok ds rest =>
        let v : Int := natOfDigitsBase base ds
        if inI64 v then .ok v rest else .cut
      | _ => .cut
    else .cut
  | [] => .cut

/-- `integer` -/
def integer (s : Bytes) : Res Int :=
  match s with
  | 0x30 :: 0x78 :: r => prefixedInt isHexdig 16 r
  | 0x30 :: 0x6F :: r => prefixedInt isDigit0_7 8 r
  | 0x30 :: 0x62 :: r => prefixedInt isDigit0_1 2 r
  | _ =>
    match decInt s with
    | .ok (neg, _, ds) rest =>
      let n : Int := natOfDigitsBase 10 ds
      let v : Int := if neg then -n else n
      if inI64 v then .ok v rest else .cut
    | .bt => .bt
    | .cut => .cut

/-- lexical shape of a decimal float literal -/
structure FloatLit where
  neg : Bool
  intDigits : Bytes
  fracDigits : Bytes
  expNeg : Bool
  expDigits : Bytes
  deriving Repr, DecidableEq

/-- `exp`: `e`/`E`, optional sign, `cut_err(zero_prefixable_int)`; input starts at the `e` -/
def expPart (s : Bytes) : Res (Bool × Bytes) :=
  match s with
  | c :: r =>
    if c == 0x65 || c == 0x45 then
      let (neg, r') : Bool × Bytes :=
        match r with
        | 0x2B :: t => (false, t)
        | 0x2D :: t => (true, t)
        | _ => (false, r)
      match zeroPrefixableInt r' with
      | .ok ds rest => .ok (neg, ds) rest
      | _ => .cut
    else .bt
  | [] => .bt

/-- `float_` : `dec_int ( exp / frac [exp] )` -/
def floatLit (s : Bytes) : Res FloatLit :=
  match decInt s with
  | .ok (neg, _, ids) r =>
    match r with
    | 0x2E :: r1 =>
      match zeroPrefixableInt r1 with
      | .ok fds r2 =>
        match expPart r2 with
        | .ok (en, eds) r3 => .ok ⟨neg, ids, fds, en, eds⟩ r3
        | .bt => .ok ⟨neg, ids, fds, false, []⟩ r2
        | .cut => .cut
      | _ => .cut
    | _ =>
      match expPart r with
      | .ok (en, eds) r3 => .ok ⟨neg, ids, [], en, eds⟩ r3
      | .bt => .bt
      | .cut => .cut
  | .bt => .bt
  | .cut => .cut

/-- the value `str::parse::<f64>` assigns to the literal (correct rounding) -/
def FloatLit.bits (l : FloatLit) : Nat :=
  let m := natOfDigitsBase 10 (l.intDigits ++ l.fracDigits)
  -- cap the exponent: beyond ±100000 the outcome (inf / zero) no longer depends on it
  -- leading zeros of the exponent do not count towards the cap (`1e00000001` is 10)
  let ed := l.expDigits.dropWhile (· == 0x30)
  let eAbs := natOfDigitsBase 10 (ed.take 7)
  let eAbs := if ed.length > 7 then 10000000 else eAbs
  let e : Int := (if l.expNeg then -(eAbs : Int) else (eAbs : Int)) - (l.fracDigits.length : Int)
  -- strip leading zeros cheaply is unnecessary: m is a Nat
  Ieee.roundDecimal l.neg m e

def startsWith (p : Bytes) (s : Bytes) : Option Bytes :=
  if s.take p.length == p then some (s.drop p.length) else none

/-- `special_float` -/
def specialFloat (s : Bytes) : Res Nat :=
  let (neg, r) : Bool × Bytes :=
    match s with
    | 0x2B :: t => (false, t)
    | 0x2D :: t => (true, t)
    | _ => (false, s)
  let sgn := if neg then Ieee.signBit else 0
  match startsWith [0x69, 0x6E, 0x66] r with
  | some t => .ok (sgn + Ieee.infBits) t
  | none =>
    match startsWith [0x6E, 0x61, 0x6E] r with
    | some t => .ok (sgn + Ieee.nanBits) t
    | none => .bt

/-- `float`: bit pattern of the parsed double. A literal that rounds to an infinity is rejected
    (`verify(|f| f.is_finite())` under `cut_err`). -/
def float (s : Bytes) : Res Nat :=
  match floatLit s with
  | .ok l rest =>
    let b := l.bits
    if Ieee.isInfBits b then .cut else .ok b rest
  | .cut => .cut
  | .bt => specialFloat s

/-- `true_` / `false_`: `peek(first byte)` then `cut_err(keyword)` -/
def keyword (kw : Bytes) (s : Bytes) : Res Unit :=
  match s, kw with
  | b :: _, k :: _ =>
    if b == k then
      match startsWith kw s with
      | some r => .ok () r
      | none => .cut
    else .bt
  | _, _ => .bt

/-! ### writers (`toml_write/src/value.rs`) -/

def natDigitsAux : Nat → Nat → Bytes → Bytes
  | 0, _, acc => acc
  | fuel + 1, n, acc =>
    let acc := UInt8.ofNat (0x30 + n % 10) :: acc
    if n / 10 == 0 then acc else natDigitsAux fuel (n / 10) acc

/-- decimal digits of a natural number (what `Display` for integers prints) -/
def natDigits (n : Nat) : Bytes := natDigitsAux (n + 1) n []

/-- `impl WriteTomlValue for i64` = `Display` -/
def writeInt (n : Int) : Bytes :=
  if n < 0 then 0x2D :: natDigits n.natAbs else natDigits n.natAbs

/-- `impl WriteTomlValue for f64` / `f32`, given std's `Display` text `disp` of the (finite, non-zero) value.
    `bits`/`signMask`/`expMask` select the width. `isIntegral` is `self % 1.0 == 0.0`. -/
def writeFloat (neg isNan isZero isIntegral : Bool) (disp : Bytes) : Bytes :=
  if isNan then (if neg then strBytes "-nan" else strBytes "nan")
  else if isZero then (if neg then strBytes "-0.0" else strBytes "0.0")
  else if isIntegral then disp ++ [0x2E, 0x30]
  else disp

end TomlVerif.Model.Numbers
