import TomlVerif.Model.Tree
/-! Model of `parser/state.rs` (`ParseState`): how headers and key/value statements build the tree.
    Errors (`CustomError`) are `none`. -/
namespace TomlVerif.Model.State
open TomlVerif TomlVerif.Model

structure ParseState where
  root : Tbl := Tbl.empty
  position : Nat := 0
  current : Tbl := Tbl.empty
  currentIsArray : Bool := false
  currentPath : List Bytes := []

def newImplicit (dotted : Bool) : Tbl := .mk [] true dotted none

def modifyLast (ts : List Tbl) (f : Tbl → Option Tbl) : Option (List Tbl) :=
  match ts.reverse with
  | [] => none          -- `debug_assert!(!array.is_empty())`
  | l :: initRev => match f l with
    | some l' => some (initRev.reverse ++ [l'])
    | none => none

/-- `descend_path(table, path, dotted)` followed by `f` on the table reached; the tables created on
    the way (`or_insert_with`) stay in the result. -/
def descend : Tbl → List Bytes → Bool → (Tbl → Option Tbl) → Option Tbl
  | t, [], _, f => f t
  | t, k :: ks, dotted, f =>
    let entry : Item := (alookup k t.items).getD (.table (newImplicit dotted))
    match entry with
    | .value _ => none
    | .aot ts =>
      -- a dotted key may not reach into an array of tables (when the array is the last
      -- segment, the caller's mixed-table-types check rejects it against the leaf key)
      if dotted && !ks.isEmpty then none else
      match modifyLast ts (fun last => descend last ks dotted f) with
      | some ts' => some (t.setItems (aset k (.aot ts') t.items))
      | none => none
    | .table sub =>
      if dotted && !sub.implicit then none
      else match descend sub ks dotted f with
        | some sub' => some (t.setItems (aset k (.table sub') t.items))
        | none => none

def splitLast {α} : List α → Option (List α × α)
  | [] => none
  | [x] => some ([], x)
  | x :: r => match splitLast r with
    | some (i, l) => some (x :: i, l)
    | none => none

/-- `on_keyval` -/
def onKeyval (st : ParseState) (path : List Bytes) (key : Bytes) (v : Val) : Option ParseState :=
  let r := descend st.current path true fun table =>
    if table.dotted == path.isEmpty then none
    else match alookup key table.items with
      | some _ => none
      | none => some (table.setItems (table.items ++ [(key, .value v)]))
  r.map fun c => { st with current := c }

/-- `finalize_table` -/
def finalizeTable (st : ParseState) : Option ParseState :=
  let table := st.current
  let path := st.currentPath
  let st := { st with current := Tbl.empty, currentPath := [] }
  match splitLast path with
  | none =>
    -- assert!(root.is_empty()); swap
    if st.root.items.isEmpty then some { st with root := table } else none
  | some (parentPath, key) =>
    if st.currentIsArray then
      let r := descend st.root parentPath false fun parent =>
        match (alookup key parent.items).getD (.aot []) with
        | .aot ts => some (parent.setItems (aset key (.aot (ts ++ [table])) parent.items))
        | _ => none
      r.map fun root => { st with root := root }
    else
      let r := descend st.root parentPath false fun parent =>
        match alookup key parent.items with
        | some (.table t) => if t.implicit then some (parent.setItems (areplace key (.table table) parent.items)) else none
        | some _ => none
        | none => some (parent.setItems (parent.items ++ [(key, .table table)]))
      r.map fun root => { st with root := root }

/-- `start_table` (after `finalize_table`) -/
def startTable (st : ParseState) (path : List Bytes) : Option ParseState :=
  match splitLast path with
  | none => none
  | some (parentPath, key) =>
    -- the removed entry, if any, becomes the current table
    let taken : Option (Option Tbl) :=
      -- outer none = error; inner = the implicit table taken over, if any
      let probe := descend st.root parentPath false fun parent =>
        match alookup key parent.items with
        | some (.table t) => if t.implicit && !t.dotted then some parent else none
        | some _ => none
        | none => some parent
      match probe with
      | none => none
      | some _ => some none
    match taken with
    | none => none
    | some _ =>
      -- perform the removal, remembering what was removed
      let removed : Option Tbl :=
        let rec find (t : Tbl) (p : List Bytes) : Option Tbl :=
          match p with
          | [] => match alookup key t.items with
            | some (.table x) => some x
            | _ => none
          | k :: ks => match alookup k t.items with
            | some (.table sub) => find sub ks
            | some (.aot ts) => match ts.reverse with
              | l :: _ => find l ks
              | [] => none
            | _ => none
        find st.root parentPath
      let root' := descend st.root parentPath false fun parent => some (parent.setItems (aerase key parent.items))
      match root' with
      | none => none
      | some root' =>
        let base : Tbl := removed.getD st.current
        some { st with root := root', position := st.position + 1,
                       current := .mk base.items false false (some (st.position + 1)),
                       currentIsArray := false, currentPath := path }

/-- `start_array_table` -/
def startArrayTable (st : ParseState) (path : List Bytes) : Option ParseState :=
  match splitLast path with
  | none => none
  | some (parentPath, key) =>
    let root' := descend st.root parentPath false fun parent =>
      match alookup key parent.items with
      | some (.aot _) => some parent
      | some _ => none
      | none => some (parent.setItems (parent.items ++ [(key, .aot [])]))
    match root' with
    | none => none
    | some root' =>
      some { st with root := root', position := st.position + 1,
                     current := .mk st.current.items false false (some (st.position + 1)),
                     currentIsArray := true, currentPath := path }

def onStdHeader (st : ParseState) (path : List Bytes) : Option ParseState :=
  match finalizeTable st with
  | some st' => startTable st' path
  | none => none

def onArrayHeader (st : ParseState) (path : List Bytes) : Option ParseState :=
  match finalizeTable st with
  | some st' => startArrayTable st' path
  | none => none

/-- `into_document` -/
def intoDocument (st : ParseState) : Option Tbl :=
  (finalizeTable st).map (·.root)

end TomlVerif.Model.State
