import TomlVerif.Model.Write
import TomlVerif.Model.Numbers
import TomlVerif.Model.Datetime
import TomlVerif.Model.Tree
/-! Model of the construction API of `toml_edit` (`value.rs`, `item.rs`, `table.rs`,
    `inline_table.rs`, `array.rs`, `array_of_tables.rs`, `key.rs`, `repr.rs`) and of the printer
    `encode.rs` for structures WITHOUT source text (`input = None`): decor that is unset is
    replaced by the `DEFAULT_*_DECOR` constants, representations are computed by the writers of
    `toml_write`.

    * `BVal / BItem / BTbl` (`Built`): the construction calls.
    * `DVal / DItem / DTbl` (`DTree`): the structure those calls leave behind, with the decor
      exactly as the constructors set it.
    * `build*` : Built → DTree,  `encode* / printDoc` : DTree → text.
    * `fmtTbl` + `tomlDoc`: the `toml::Table` / `toml::Value` `Display` route
      (serializer → `into_table` → `DocumentFormatter` → the same printer). -/
namespace TomlVerif.Model.Encode06
open TomlVerif TomlVerif.Model

/-! ### decor constants (tied to the source by `Gen/CheckEncode.lean`) -/
def DEFAULT_ROOT_DECOR : Bytes × Bytes := ([], [])
def DEFAULT_KEY_DECOR : Bytes × Bytes := ([], [0x20])
def DEFAULT_TABLE_DECOR : Bytes × Bytes := ([0x0A], [])
def DEFAULT_KEY_PATH_DECOR : Bytes × Bytes := ([], [])
def DEFAULT_VALUE_DECOR : Bytes × Bytes := ([0x20], [])
def DEFAULT_TRAILING_VALUE_DECOR : Bytes × Bytes := ([0x20], [0x20])
def DEFAULT_LEADING_VALUE_DECOR : Bytes × Bytes := ([], [])
def DEFAULT_INLINE_KEY_DECOR : Bytes × Bytes := ([0x20], [0x20])

/-! ### Built: the construction calls -/

/-- a value expression. `viaIter = false`: `Array::new()` + `push` / `InlineTable::new()` + `insert`;
    `viaIter = true`: the `FromIterator` impls. A float carries its bit pattern and std's `Display`
    text of it (validated by the driver, as in C11). -/
inductive BVal where
  | str (s : Bytes)
  | int (n : Int)
  | float (bits : Nat) (disp : Bytes)
  | bool (b : Bool)
  | dt (d : Datetime.Datetime)
  | arr (viaIter : Bool) (items : List BVal)
  | inl (viaIter : Bool) (items : List (Bytes × BVal))

mutual
/-- an item expression: `Item::Value(v)` / `value(v)` / `Item::from(v)`, `Item::Table(t)`,
    `ArrayOfTables::new()` + `push(t)` (or `FromIterator<Table>`) -/
inductive BItem where
  | value (v : BVal)
  | table (t : BTbl)
  | aot (ts : List BTbl)
/-- `Table::new()` + `insert(key, item)` in the given order (or `FromIterator<(K, V)>`) -/
inductive BTbl where
  | mk (items : List (Bytes × BItem))
end

/-! ### DTree: what the constructors leave behind -/

/-- `Decor { prefix, suffix }`: `none` = unset -/
structure Decor where
  pre : Option Bytes := none
  suf : Option Bytes := none
  deriving Repr, DecidableEq

/-- `Value`: scalars are `Formatted<T>` with `repr = None`; `Array` has `trailing = ""`,
    `trailing_comma = false`; `InlineTable` has `preamble = ""`, `dotted = false` -/
inductive DVal where
  | str (s : Bytes) (dec : Decor)
  | int (n : Int) (dec : Decor)
  | float (bits : Nat) (disp : Bytes) (dec : Decor)
  | bool (b : Bool) (dec : Decor)
  | dt (d : Datetime.Datetime) (dec : Decor)
  | arr (items : List DVal) (dec : Decor)
  | inl (items : List (Bytes × DVal)) (dec : Decor)

mutual
inductive DItem where
  | value (v : DVal)
  | table (t : DTbl)
  | aot (ts : List DTbl)
/-- `Table`: keys are `Key::new(..)` (no repr, unset decor); the table's own decor is unset,
    `dotted = false`; `implicit` and `doc_position` as given -/
inductive DTbl where
  | mk (items : List (Bytes × DItem)) (implicit : Bool) (pos : Option Nat)
end

def DTbl.items : DTbl → List (Bytes × DItem) | .mk i _ _ => i
def DTbl.implicit : DTbl → Bool | .mk _ i _ => i
def DTbl.pos : DTbl → Option Nat | .mk _ _ p => p

/-- `Value::decorate(prefix, suffix)`: `*self.decor_mut() = Decor::new(prefix, suffix)` -/
def decorate (pre suf : Bytes) : DVal → DVal
  | .str s _ => .str s ⟨some pre, some suf⟩
  | .int n _ => .int n ⟨some pre, some suf⟩
  | .float b d _ => .float b d ⟨some pre, some suf⟩
  | .bool b _ => .bool b ⟨some pre, some suf⟩
  | .dt d _ => .dt d ⟨some pre, some suf⟩
  | .arr items _ => .arr items ⟨some pre, some suf⟩
  | .inl items _ => .inl items ⟨some pre, some suf⟩

/-- `Array::push` = `value_op(v, true, push)`: the first element gets `("", "")`, later ones `(" ", "")` -/
def arrayPush (items : List DVal) (v : DVal) : List DVal :=
  items ++ [if !items.isEmpty then decorate [0x20] [] v else decorate [] [] v]

mutual
def buildVal : BVal → DVal
  | .str s => .str s {}
  | .int n => .int n {}
  | .float b d => .float b d {}
  | .bool b => .bool b {}
  | .dt d => .dt d {}
  | .arr viaIter items =>
    -- FromIterator: `Array { values, ..Default::default() }` (decor of the elements untouched)
    if viaIter then .arr (buildVals items) {} else .arr ((buildVals items).foldl arrayPush []) {}
  | .inl _ items =>
    -- `insert` and `Extend::extend` both end in `IndexMap` insertion: a repeated key keeps its place
    .inl ((buildKVs items).foldl (fun acc kv => aset kv.1 kv.2 acc) []) {}
def buildVals : List BVal → List DVal
  | [] => []
  | v :: r => buildVal v :: buildVals r
def buildKVs : List (Bytes × BVal) → List (Bytes × DVal)
  | [] => []
  | (k, v) :: r => (k, buildVal v) :: buildKVs r
end

mutual
def buildItem : BItem → DItem
  | .value v => .value (buildVal v)
  | .table t => .table (buildTbl t)
  | .aot ts => .aot (buildTbls ts)
/-- `Table::new()`: `implicit = false`, `doc_position = None` -/
def buildTbl : BTbl → DTbl
  | .mk items => .mk ((buildItems items).foldl (fun acc kv => aset kv.1 kv.2 acc) []) false none
def buildTbls : List BTbl → List DTbl
  | [] => []
  | t :: r => buildTbl t :: buildTbls r
def buildItems : List (Bytes × BItem) → List (Bytes × DItem)
  | [] => []
  | (k, i) :: r => (k, buildItem i) :: buildItems r
end

/-! ### default representations (`impl ValueRepr for …`, `Key::default_repr`) -/

/-- `TomlStringBuilder::new(s).as_default().to_toml_value()` -/
def reprString (s : Bytes) : Bytes := (Write.writeValue .default s).getD []

/-- `TomlKeyBuilder::new(k).as_default().to_toml_key()` -/
def reprKey (k : Bytes) : Bytes := (Write.writeKey .default k).getD []

/-- `f64::to_toml_value` on a bit pattern, with std's `Display` text of the value -/
def reprFloat (bits : Nat) (disp : Bytes) : Bytes :=
  let neg := bits / 2 ^ 63 == 1
  let expField := bits / 2 ^ 52 % 2 ^ 11
  let mant := bits % 2 ^ 52
  let isNan := expField == 2047 && mant != 0
  let isInf := expField == 2047 && mant == 0
  let isZero := expField == 0 && mant == 0
  -- `self % 1.0 == 0.0`: std prints an integral double without a fraction part
  let isIntegral := !isInf && !disp.contains 0x2E
  Numbers.writeFloat neg isNan isZero isIntegral disp

def reprBool (b : Bool) : Bytes := if b then strBytes "true" else strBytes "false"

/-! ### the printer (`encode.rs`, `input = None`) -/

/-- `prefix_encode(.., default) … suffix_encode(.., default)` around a token -/
def withDecor (dec : Decor) (dflt : Bytes × Bytes) (tok : Bytes) : Bytes :=
  dec.pre.getD dflt.1 ++ tok ++ dec.suf.getD dflt.2

/-- `encode_key_path` / `encode_key_path_ref` for keys without explicit decor -/
def encodeKeyPathAux (dflt : Bytes × Bytes) : Bool → List Bytes → Bytes
  | _, [] => []
  | first, k :: r =>
    (if first then dflt.1 else [0x2E] ++ DEFAULT_KEY_PATH_DECOR.1) ++ reprKey k ++
    (if r.isEmpty then dflt.2 else DEFAULT_KEY_PATH_DECOR.2) ++ encodeKeyPathAux dflt false r

def encodeKeyPath (path : List Bytes) (dflt : Bytes × Bytes) : Bytes := encodeKeyPathAux dflt true path

mutual
/-- `encode_value` (with `encode_formatted`, `encode_array`, `encode_table`) -/
def encodeValue : DVal → Bytes × Bytes → Bytes
  | .str s dec, dflt => withDecor dec dflt (reprString s)
  | .int n dec, dflt => withDecor dec dflt (Numbers.writeInt n)
  | .float b d dec, dflt => withDecor dec dflt (reprFloat b d)
  | .bool b dec, dflt => withDecor dec dflt (reprBool b)
  | .dt d dec, dflt => withDecor dec dflt (Datetime.Std.display d)
  | .arr items dec, dflt =>
    -- trailing_comma = false, trailing = ""
    withDecor dec dflt ([0x5B] ++ encodeElems items true ++ [0x5D])
  | .inl items dec, dflt =>
    -- preamble = "", `get_values` of a table without dotted children = its pairs
    withDecor dec dflt ([0x7B] ++ encodePairs items true ++ [0x7D])
/-- the `for (i, elem)` loop of `encode_array` -/
def encodeElems : List DVal → Bool → Bytes
  | [], _ => []
  | v :: r, first =>
    (if first then encodeValue v DEFAULT_LEADING_VALUE_DECOR
     else [0x2C] ++ encodeValue v DEFAULT_VALUE_DECOR) ++ encodeElems r false
/-- the `for (i, (key_path, value))` loop of `encode_table` -/
def encodePairs : List (Bytes × DVal) → Bool → Bytes
  | [], _ => []
  | (k, v) :: r, first =>
    (if first then [] else [0x2C]) ++
    encodeKeyPath [k] DEFAULT_INLINE_KEY_DECOR ++ [0x3D] ++
    encodeValue v (if r.isEmpty then DEFAULT_TRAILING_VALUE_DECOR else DEFAULT_VALUE_DECOR) ++
    encodePairs r false
end

/-- `Table::get_values` for a table without dotted children: the `Item::Value` entries in order -/
def getValues : List (Bytes × DItem) → List (Bytes × DVal)
  | [] => []
  | (k, .value v) :: r => (k, v) :: getValues r
  | _ :: r => getValues r

/-- the "print table body" loop of `visit_table` (also `impl Display for Table`) -/
def encodeBody : List (Bytes × DVal) → Bytes
  | [] => []
  | (k, v) :: r =>
    encodeKeyPath [k] DEFAULT_KEY_DECOR ++ [0x3D] ++ encodeValue v DEFAULT_VALUE_DECOR ++ [0x0A] ++ encodeBody r

/-- one entry of the `tables` vector of `Display for DocumentMut` -/
structure Visit where
  lastPos : Nat
  tbl : DTbl
  path : List Bytes
  isArray : Bool

mutual
/-- `visit_nested_tables` with the callback of `Display for DocumentMut`: state = `last_position`,
    output appended in call order. Tables are never dotted here. -/
def visitNested : DTbl → List Bytes → Bool → Nat → List Visit × Nat
  | .mk items imp pos, path, isArray, last =>
    let last1 := match pos with | some p => p | none => last
    let (vs, last2) := visitItems items path last1
    (⟨last1, .mk items imp pos, path, isArray⟩ :: vs, last2)
def visitItems : List (Bytes × DItem) → List Bytes → Nat → List Visit × Nat
  | [], _, last => ([], last)
  | (k, .table t) :: r, path, last =>
    let (a, l1) := visitNested t (path ++ [k]) false last
    let (b, l2) := visitItems r path l1
    (a ++ b, l2)
  | (k, .aot ts) :: r, path, last =>
    let (a, l1) := visitAot ts (path ++ [k]) last
    let (b, l2) := visitItems r path l1
    (a ++ b, l2)
  | (_, .value _) :: r, path, last => visitItems r path last
def visitAot : List DTbl → List Bytes → Nat → List Visit × Nat
  | [], _, last => ([], last)
  | t :: r, path, last =>
    let (a, l1) := visitNested t path true last
    let (b, l2) := visitAot r path l1
    (a ++ b, l2)
end

/-- insertion into a list sorted by `lastPos`, after every entry with a key `≤` (stability) -/
def insertByPos (v : Visit) : List Visit → List Visit
  | [] => [v]
  | w :: r => if v.lastPos < w.lastPos then v :: w :: r else w :: insertByPos v r

/-- `tables.sort_by_key(|&(id, ..)| id)`: a stable sort -/
def sortByPos (l : List Visit) : List Visit := l.foldl (fun acc v => insertByPos v acc) []

/-- `visit_table`: returns the text and the new `first_table` -/
def visitTable (v : Visit) (first : Bool) : Bytes × Bool :=
  let children := getValues v.tbl.items
  let isVisibleStd := !(v.tbl.implicit && children.isEmpty)
  let dflt : Bytes × Bytes := if first then ([], DEFAULT_TABLE_DECOR.2) else DEFAULT_TABLE_DECOR
  let (header, first') : Bytes × Bool :=
    if v.path.isEmpty then ([], if !children.isEmpty then false else first)
    else if v.isArray then
      (dflt.1 ++ [0x5B, 0x5B] ++ encodeKeyPath v.path DEFAULT_KEY_PATH_DECOR ++ [0x5D, 0x5D] ++ dflt.2 ++ [0x0A], false)
    else if isVisibleStd then
      (dflt.1 ++ [0x5B] ++ encodeKeyPath v.path DEFAULT_KEY_PATH_DECOR ++ [0x5D] ++ dflt.2 ++ [0x0A], false)
    else ([], first)
  (header ++ encodeBody children, first')

def visitTables : List Visit → Bool → Bytes
  | [], _ => []
  | v :: r, first =>
    let (txt, first') := visitTable v first
    txt ++ visitTables r first'

/-- `impl Display for DocumentMut` (document decor unset, `trailing = ""`) -/
def printDoc (root : DTbl) : Bytes :=
  let (tables, _) := visitNested root [] false 0
  DEFAULT_ROOT_DECOR.1 ++ visitTables (sortByPos tables) true ++ DEFAULT_ROOT_DECOR.2

/-- `impl Display for Value`: `encode_value(self, f, None, ("", ""))` -/
def printValue (v : DVal) : Bytes := encodeValue v ([], [])

/-- `impl Display for Key` -/
def printKey (k : Bytes) : Bytes := reprKey k

/-- `impl Display for Table`: the body only -/
def printTableBody (t : DTbl) : Bytes := encodeBody (getValues t.items)

/-! ### the decoded tree (`Model/Tree.lean`) of a DTree, for comparison with the parser's result -/

mutual
def valOf : DVal → Val
  | .str s _ => .str s
  | .int n _ => .int n
  | .float b _ _ => .float b
  | .bool b _ => .bool b
  | .dt d _ => .dt d
  | .arr items _ => .arr (valsOf items)
  | .inl items _ => .inl (pairsOf items) false false
def valsOf : List DVal → List Val
  | [] => []
  | v :: r => valOf v :: valsOf r
def pairsOf : List (Bytes × DVal) → List (Bytes × Val)
  | [] => []
  | (k, v) :: r => (k, valOf v) :: pairsOf r
end

mutual
def itemOf : DItem → Item
  | .value v => .value (valOf v)
  | .table t => .table (tblOf t)
  | .aot ts => .aot (tblsOf ts)
def tblOf : DTbl → Tbl
  | .mk items imp pos => .mk (itemsOf items) imp false pos
def tblsOf : List DTbl → List Tbl
  | [] => []
  | t :: r => tblOf t :: tblsOf r
def itemsOf : List (Bytes × DItem) → List (Bytes × Item)
  | [] => []
  | (k, i) :: r => (k, itemOf i) :: itemsOf r
end

/-! ### the `toml::Table` / `toml::Value` `Display` route

  `toml::Value` → (serde) → `toml_edit::Value` (tables become `InlineTable`s through
  `SerializeMap`, sequences `Array`s) → `Item::Value(v).into_table()` → `DocumentFormatter`
  (`toml/src/fmt.rs`) → `Display for DocumentMut`.  A `toml::Value` is described by a `BVal`
  (`inl` = `toml::Table`). -/

/-- bytewise order of keys (`BTreeMap<String, _>`) -/
def bytesLt : Bytes → Bytes → Bool
  | [], [] => false
  | [], _ :: _ => true
  | _ :: _, [] => false
  | a :: r, b :: s => if a < b then true else if b < a then false else bytesLt r s

def insertSorted {α} (kv : Bytes × α) : List (Bytes × α) → List (Bytes × α)
  | [] => [kv]
  | w :: r => if bytesLt kv.1 w.1 then kv :: w :: r else if kv.1 == w.1 then kv :: r else w :: insertSorted kv r

/-- `toml::Table` = `BTreeMap`: sorted by key, a repeated key overwrites -/
def sortKVs {α} (l : List (Bytes × α)) : List (Bytes × α) := l.foldl (fun acc kv => insertSorted kv acc) []

def isTableV : DVal → Bool | .inl _ _ => true | _ => false
def isArrayV : DVal → Bool | .arr _ _ => true | _ => false
def arrayHasTable : DVal → Bool | .arr items _ => items.any isTableV | _ => false

/-- `impl Serialize for toml::Value`, table case: three passes over the map -/
def serOrder (l : List (Bytes × DVal)) : List (Bytes × DVal) :=
  l.filter (fun kv => (!isTableV kv.2 && !isArrayV kv.2) || (isArrayV kv.2 && !arrayHasTable kv.2)) ++
  l.filter (fun kv => arrayHasTable kv.2) ++
  l.filter (fun kv => isTableV kv.2)

mutual
/-- the `toml_edit::Value` the value serializer produces for a `toml::Value`
    (`top = true`: `impl Serialize for Map` keeps the map's order, nested tables go through
    `impl Serialize for Value`) -/
def serVal : BVal → Bool → DVal
  | .str s, _ => .str s {}
  | .int n, _ => .int n {}
  | .float b d, _ =>
    -- `serialize_f64`: the sign of a NaN is discarded
    let expField := b / 2 ^ 52 % 2 ^ 11
    let mant := b % 2 ^ 52
    if expField == 2047 && mant != 0 then .float (b % 2 ^ 63) d {} else .float b d {}
  | .bool b, _ => .bool b {}
  | .dt d, _ => .dt d {}
  -- `SerializeValueArray::end`: `Array::with_vec(values)` (decor of the elements unset)
  | .arr _ items, _ => .arr (serVals items) {}
  | .inl _ items, top =>
    let m := sortKVs (serKVs items)
    .inl (if top then m else serOrder m) {}
def serVals : List BVal → List DVal
  | [] => []
  | v :: r => serVal v false :: serVals r
def serKVs : List (Bytes × BVal) → List (Bytes × DVal)
  | [] => []
  | (k, v) :: r => (k, serVal v false) :: serKVs r
end

/-- `Decor::clear` on a value -/
def clearDecor : DVal → DVal
  | .str s _ => .str s {}
  | .int n _ => .int n {}
  | .float b d _ => .float b d {}
  | .bool b _ => .bool b {}
  | .dt d _ => .dt d {}
  | .arr items _ => .arr items {}
  | .inl items _ => .inl items {}

mutual
/-- `DocumentFormatter::visit_value_mut` below a value: decor cleared everywhere -/
def fmtValue : DVal → DVal
  | .arr items _ => .arr (fmtValues items) {}
  | .inl items _ => .inl (fmtPairs items) {}
  | v => clearDecor v
def fmtValues : List DVal → List DVal
  | [] => []
  | v :: r => fmtValue v :: fmtValues r
def fmtPairs : List (Bytes × DVal) → List (Bytes × DVal)
  | [] => []
  | (k, v) :: r => (k, fmtValue v) :: fmtPairs r
end

/-- all elements are inline tables and there is at least one (`Item::into_array_of_tables`) -/
def allTables : List DVal → Bool
  | [] => false
  | [v] => isTableV v
  | v :: r => isTableV v && allTables r

mutual
/-- `DocumentFormatter::visit_item_mut` for an item that is not below a value:
    an inline table becomes a table, an array of inline tables an array of tables -/
def fmtItem : DVal → DItem
  | .inl items _ => .table (fmtTbl items)
  | .arr items dec =>
    if allTables items then .aot (fmtAot items) else .value (fmtValue (.arr items dec))
  | v => .value (fmtValue v)
/-- `into_table` (`Table::with_pairs` + `fmt`) then `visit_table_mut`: decor cleared,
    `implicit = true` unless the table is empty -/
def fmtTbl : List (Bytes × DVal) → DTbl
  | items => .mk (fmtItems items) (!items.isEmpty) none
def fmtItems : List (Bytes × DVal) → List (Bytes × DItem)
  | [] => []
  | (k, v) :: r => (k, fmtItem v) :: fmtItems r
def fmtAot : List DVal → List DTbl
  | [] => []
  | .inl items _ :: r => fmtTbl items :: fmtAot r
  | _ :: r => fmtAot r
end

/-- the document `toml::Table::to_string()` prints (`none`: the value is not a table) -/
def tomlDoc (v : BVal) : Option DTbl :=
  match serVal v true with
  | .inl items _ => some (fmtTbl items)
  | _ => none

/-- `toml_datetime::__unstable::FIELD` = `"$__toml_private_datetime"` -/
def DATETIME_FIELD : Bytes :=
  [0x24, 0x5F, 0x5F, 0x74, 0x6F, 0x6D, 0x6C, 0x5F, 0x70, 0x72, 0x69, 0x76, 0x61, 0x74, 0x65, 0x5F,
   0x64, 0x61, 0x74, 0x65, 0x74, 0x69, 0x6D, 0x65]

/-- `toml::Value::to_string()`: the serialized value printed as a value. (Before the repair of
    `toml::ser::ValueSerializer::serialize_struct`, which dropped the struct name, a `Datetime` that
    was the WHOLE value was written as `{ "$__toml_private_datetime" = "<text>" }`.) -/
def tomlValueText (v : BVal) : Bytes := printValue (serVal v false)

end TomlVerif.Model.Encode06
