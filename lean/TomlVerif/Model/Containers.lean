import TomlVerif.Spec.OrdMap
/-! # C16 — model of the containers of `toml_edit` and of `toml::Map`

Transliteration of `toml_edit/src/{table,inline_table,array,array_of_tables,index}.rs` and
`toml/src/map.rs` on small data: keys are `Nat` (0..3 = "a".."d", 4.. = "k00", "k01", …), values small integers.
`IndexMap<Key, Item>` is an association list with the `indexmap` primitives the code calls
(`get`, `entry`/occupied `get_mut`/vacant `insert`, `insert`, `shift_remove`, `retain`, `sort_by`,
`sort_keys`); `Item::None` is `Slot.placeholder`.

Four dialects of the map-like API are modelled because the code has four implementations:
`Table`'s inherent methods, `impl TableLike for Table`, `InlineTable`'s inherent methods and
`impl TableLike for InlineTable`.

`Fix` switches between the code as it is (`asImplemented`, what the driver runs) and the code with
the deviations from the reference ordered map repaired (`repaired`, what the refinement theorems
are about); see `Props/C16.lean` for the `T16_finding_*` theorems. -/
namespace TomlVerif.Model.Containers
open TomlVerif.Spec.OrdMap (stableSort vinsert vremove vreplace)

inductive Val where
  | int (n : Nat)
  /-- the empty inline table `{}` that `InlineTable::entry` writes over an `Item::None` -/
  | tbl
  deriving DecidableEq, Repr

inductive Slot where
  /-- `Item::None` -/
  | placeholder
  /-- `Item::Value(v)` -/
  | item (v : Val)
  deriving DecidableEq, Repr

namespace Slot
def isNone : Slot → Bool
  | placeholder => true
  | item _ => false
/-- `Item::as_integer` -/
def asInt : Slot → Option Nat
  | item (.int n) => some n
  | _ => none
end Slot

/-! ## `IndexMap` primitives -/
section IndexMap
variable {S : Type}

abbrev IMap (S : Type) := List (Nat × S)

def imGet : IMap S → Nat → Option S
  | [], _ => none
  | e :: m, k => if e.1 == k then some e.2 else imGet m k

/-- write through `OccupiedEntry::get_mut` / `get_mut(key)`: the position is kept -/
def imSet : IMap S → Nat → S → IMap S
  | [], _, _ => []
  | e :: m, k, s => if e.1 == k then (e.1, s) :: m else e :: imSet m k s

/-- `VacantEntry::insert` -/
def imPush (m : IMap S) (k : Nat) (s : S) : IMap S := m ++ [(k, s)]

/-- `IndexMap::insert` and the `match entry { Occupied => replace, Vacant => insert }` idiom -/
def imInsert (m : IMap S) (k : Nat) (s : S) : IMap S × Option S :=
  match imGet m k with
  | some old => (imSet m k s, some old)
  | none => (imPush m k s, none)

def imShiftRemove : IMap S → Nat → IMap S × Option S
  | [], _ => ([], none)
  | e :: m, k =>
    if e.1 == k then (m, some e.2)
    else
      let r := imShiftRemove m k
      (e :: r.1, r.2)

def imRetain (f : Nat → S → Bool) (m : IMap S) : IMap S := m.filter fun e => f e.1 e.2

/-- `sort_by` is a stable sort -/
def imSortBy (le : Nat × S → Nat × S → Bool) (m : IMap S) : IMap S := stableSort le m

def imSortKeys (m : IMap S) : IMap S := stableSort (fun a b => decide (a.1 ≤ b.1)) m

def imExtend (m : IMap S) (kvs : List (Nat × S)) : IMap S :=
  kvs.foldl (fun m kv => (imInsert m kv.1 kv.2).1) m

end IndexMap

abbrev Items := IMap Slot

/-! ## operations and results -/

inductive Op where
  | ins (k n : Nat) | insf (k n : Nat) | rem (k : Nat) | reme (k : Nat)
  | get (k : Nat) | getmut (k : Nat) | gkv (k : Nat)
  | has (k : Nat) | hasv (k : Nat) | hast (k : Nat)
  | len | empty | iter | keys | values | clear
  | entry (k n : Nat) | entocc (k : Nat)
  /-- the rest of the Entry API: `match entry(k) { Occupied(e) => …, Vacant(e) => … }` with
      `e.remove()`, `e.insert(v)`, `e.get()`/`e.key()`, `e.get_mut()`/`e.into_mut()`,
      `entry(k).or_insert_with(|| v)`, `entry(k).key()` -/
  | entrem (k : Nat) | entins (k n : Nat) | entget (k : Nat) | entmut (k n : Nat)
  | entwith (k n : Nat) | entkey (k : Nat)
  /-- `InlineTable::get_or_insert(k, n)` (the other dialects have no such method) -/
  | goi (k n : Nat)
  | idx (k : Nat) | idxmut (k : Nat) | idxset (k n : Nat)
  | retain | sort | sortby
  | extend (args : List Nat)
  | push (n : Nat) | repl (i n : Nat)
  | bad
  deriving DecidableEq, Repr

inductive Ret where
  | unit
  | opt (o : Option Slot)
  | kv (o : Option (Nat × Slot))
  | bool (b : Bool)
  | nat (n : Nat)
  | pairs (l : List (Nat × Slot))
  | keys (l : List Nat)
  | vals (l : List Nat)
  | slot (s : Slot)
  | panic
  | na
  deriving DecidableEq, Repr

/-- pairs of an `extend k n k n …` argument list -/
def pairsOf : List Nat → List (Nat × Nat)
  | k :: n :: rest => (k, n) :: pairsOf rest
  | _ => []

/-! ## the four map-like dialects -/

inductive Dialect where
  | table | tablelike | inline | inlinelike
  deriving DecidableEq, Repr

namespace Dialect
def isTable : Dialect → Bool
  | table | tablelike => true
  | _ => false
def isLike : Dialect → Bool
  | tablelike | inlinelike => true
  | _ => false
end Dialect

/-- which deviations from the reference ordered map are repaired -/
structure Fix where
  /-- `impl TableLike for InlineTable`: `iter`, `iter_mut`, `get`, `get_mut` skip `Item::None` -/
  likeIter : Bool
  /-- `Table::{insert, insert_formatted, remove, remove_entry}` report no previous value for an `Item::None` -/
  insRet : Bool
  /-- `table::Entry::or_insert` (`Table::entry`, `TableLike::entry`) stores the default over an `Item::None` -/
  entry : Bool
  /-- `Table::entry` / `TableLike::entry` is `Vacant` for an `Item::None` -/
  entOcc : Bool
  /-- `InlineTable::entry` treats an `Item::None` as vacant instead of writing the value `{}` over it -/
  inlineEntry : Bool
  /-- `Table::into_iter` skips `Item::None` -/
  intoIter : Bool
  /-- `InlineTable::get_or_insert` stores the value over an `Item::None` instead of panicking
      ("non-value type in inline table") -/
  goi : Bool
  deriving DecidableEq, Repr

def asImplemented : Fix := ⟨false, false, false, false, false, false, false⟩
def repaired : Fix := ⟨true, true, true, true, true, true, true⟩
/-- /repo after the five small repairs (filters in `impl TableLike for InlineTable`, in
    `Table::{insert, insert_formatted, remove, remove_entry}`, in `Table::into_iter`,
    `Entry::or_insert{,_with}` overwriting an `Item::None`, and `InlineTable::get_or_insert` doing the
    same); the two `entry()` classifications stay -/
def afterPatches : Fix := ⟨true, true, true, false, false, true, true⟩
/-- the configuration the driver runs: must describe /repo as it is -/
def current : Fix := afterPatches

/-- `.and_then(|v| if !v.is_none() { Some(v) } else { None })`, `Item::as_value`, `into_value().ok()` -/
def vis : Option Slot → Option Slot
  | some .placeholder => none
  | o => o

/-- `.filter(|(_, value)| !value.is_none())` -/
def iterVis (m : Items) : Items := m.filter fun e => !e.2.isNone

/-- the harness's `retain` closure on a `Table`: `|_, it| it.as_integer().map_or(true, |n| n % 2 == 0)` -/
def keepTable (_ : Nat) (s : Slot) : Bool :=
  match s.asInt with
  | some n => n % 2 == 0
  | none => true

/-- `InlineTable::retain` with the closure `|_, v| v.as_integer().map_or(false, |n| n % 2 == 0)`:
    `item.as_value_mut().map(|value| keep(key, value)).unwrap_or(false)` -/
def keepInline (_ : Nat) (s : Slot) : Bool :=
  match s with
  | .placeholder => false
  | .item _ =>
    match s.asInt with
    | some n => n % 2 == 0
    | none => false

/-- `Option<i64>`'s `Ord`: `None` first -/
def optLe : Option Nat → Option Nat → Bool
  | none, _ => true
  | some _, none => false
  | some a, some b => decide (a ≤ b)

/-- `Table::sort_values_by(|_, a, _, b| b.as_integer().cmp(&a.as_integer()))`: `cmp ≠ Greater` -/
def leTable (a b : Nat × Slot) : Bool := optLe b.2.asInt a.2.asInt

/-- `InlineTable::sort_values_by` with the same closure: non-values first, values by the closure -/
def leInline (a b : Nat × Slot) : Bool :=
  match a.2, b.2 with
  | .placeholder, _ => true
  | .item _, .placeholder => false
  | .item _, .item _ => optLe b.2.asInt a.2.asInt

/-- previous value reported by insert / remove -/
def oldRet (fx : Fix) (d : Dialect) (old : Option Slot) : Option Slot :=
  if d.isTable then (if fx.insRet then vis old else old) else vis old

/-- `iter()` -/
def dIter (fx : Fix) (d : Dialect) (m : Items) : Items :=
  match d with
  | .inlinelike => if fx.likeIter then iterVis m else m
  | _ => iterVis m

/-- `len()`: `Table`, `InlineTable`: `self.iter().count()`; `TableLike`'s default method:
    `self.iter().filter(|&(_, v)| !v.is_none()).count()` -/
def dLen (fx : Fix) (d : Dialect) (m : Items) : Nat :=
  if d.isLike then (iterVis (dIter fx d m)).length else (dIter fx d m).length

/-- `get()` / `get_mut()` -/
def dGet (fx : Fix) (d : Dialect) (m : Items) (k : Nat) : Option Slot :=
  match d with
  | .inlinelike => if fx.likeIter then vis (imGet m k) else imGet m k
  | _ => vis (imGet m k)

/-- `contains_key()`: `!value.is_none()` / `value.is_value()` -/
def dHas (m : Items) (k : Nat) : Bool :=
  match imGet m k with
  | some s => !s.isNone
  | none => false

/-- `entry(k)`: `some s` = `Occupied` holding `s`, `none` = `Vacant`; and the map after the call
    (`Table::entry`, `TableLike::entry`: `self.items.entry(key)` as it is, so an `Item::None` is occupied;
    `InlineTable::entry` first writes the value `{}` over an `Item::None`) -/
def entryOf (fx : Fix) (d : Dialect) (m : Items) (k : Nat) : Option Slot × Items :=
  match imGet m k with
  | some .placeholder =>
    match d with
    | .inline => if fx.inlineEntry then (none, m) else (some (.item .tbl), imSet m k (.item .tbl))
    | _ => if fx.entOcc then (none, m) else (some .placeholder, m)
  | some s => (some s, m)
  | none => (none, m)

/-- `Entry::or_insert` / `Entry::or_insert_with` (`InlineEntry::…` for the dialect `inline`) -/
def orInsertStep (fx : Fix) (d : Dialect) (m : Items) (k n : Nat) : Ret × Items :=
  match imGet m k with
  | some .placeholder =>
    match d with
    -- `InlineTable::entry`: "`Item::None` is a corner case of a corner case, let's just pick a "safe" value"
    | .inline =>
      if fx.inlineEntry then (.slot (.item (.int n)), imSet m k (.item (.int n)))
      else (.slot (.item .tbl), imSet m k (.item .tbl))
    | _ =>
      if fx.entry then (.slot (.item (.int n)), imSet m k (.item (.int n)))
      else (.slot .placeholder, m)
  | some s => (.slot s, m)
  | none => (.slot (.item (.int n)), imPush m k (.item (.int n)))

/-- `InlineTable::get_or_insert(k, n)`:
    `let item = self.items.entry(key).or_insert(Item::None); if item.is_none() { *item = Item::Value(n) }`
    then `item.as_value_mut().expect("non-value type in inline table")`.
    A value is returned as it is; an absent key is appended; an `Item::None` left by `item[k]` gets the
    value at its reserved position.  Before the repair (`fx.goi = false`) the code was
    `self.items.entry(key).or_insert(Item::Value(n)).as_value_mut().expect(…)`: the `Item::None` was an
    occupied entry, `as_value_mut()` of it `None`, and the `expect` panicked (nothing stored). -/
def goiStep (fx : Fix) (m : Items) (k n : Nat) : Ret × Items :=
  match imGet m k with
  | some .placeholder =>
    if fx.goi then (.slot (.item (.int n)), imSet m k (.item (.int n))) else (.panic, m)
  | some s => (.slot s, m)
  | none => (.slot (.item (.int n)), imPush m k (.item (.int n)))

def step (fx : Fix) (d : Dialect) (m : Items) : Op → Ret × Items
  | .ins k n =>
    let r := imInsert m k (.item (.int n))
    (.opt (oldRet fx d r.2), r.1)
  | .insf k n =>
    if d.isLike then (.na, m) else
    let r := imInsert m k (.item (.int n))
    (.opt (oldRet fx d r.2), r.1)
  | .rem k =>
    let r := imShiftRemove m k
    (.opt (oldRet fx d r.2), r.1)
  | .reme k =>
    if d.isLike then (.na, m) else
    let r := imShiftRemove m k
    (.kv ((oldRet fx d r.2).map fun s => (k, s)), r.1)
  | .get k => (.opt (dGet fx d m k), m)
  | .getmut k => (.opt (dGet fx d m k), m)
  | .gkv k => (.kv ((vis (imGet m k)).map fun s => (k, s)), m)
  | .has k => (.bool (dHas m k), m)
  | .hasv k =>
    match d with
    | .table => (.bool (dHas m k), m)
    | _ => (.na, m)
  | .hast _ =>
    match d with
    -- `contains_table`: `value.is_table()`; no slot of this model is a table
    | .table => (.bool false, m)
    | _ => (.na, m)
  | .len => (.nat (dLen fx d m), m)
  | .empty => (.bool (dLen fx d m == 0), m)
  | .iter => (.pairs (dIter fx d m), m)
  | .keys => (.keys ((dIter fx d m).map (·.1)), m)
  | .values => (.na, m)
  | .clear => (.unit, [])
  | .entry k n => orInsertStep fx d m k n
  | .entwith k n => orInsertStep fx d m k n
  | .entrem k =>
    -- `OccupiedEntry::remove`: `self.entry.shift_remove()`
    let e := entryOf fx d m k
    match e.1 with
    | some s => (.opt (some s), (imShiftRemove e.2 k).1)
    | none => (.opt none, e.2)
  | .entins k n =>
    -- `OccupiedEntry::insert` returns the old value, `VacantEntry::insert` appends
    -- (`(imInsert · k ·).1` writes in place when the key has a position: only a repaired `entry()` is vacant there)
    let e := entryOf fx d m k
    match e.1 with
    | some s => (.opt (some s), imSet e.2 k (.item (.int n)))
    | none => (.opt none, (imInsert e.2 k (.item (.int n))).1)
  | .entget k =>
    let e := entryOf fx d m k
    (.kv (e.1.map fun s => (k, s)), e.2)
  | .entmut k n =>
    -- `*e.into_mut() = v` after reading through `e.get_mut()`
    let e := entryOf fx d m k
    match e.1 with
    | some s => (.opt (some s), imSet e.2 k (.item (.int n)))
    | none => (.opt none, e.2)
  | .entkey k =>
    let e := entryOf fx d m k
    (.bool e.1.isSome, e.2)
  | .entocc k =>
    match imGet m k with
    | some .placeholder =>
      match d with
      | .inline => if fx.inlineEntry then (.bool false, m) else (.bool true, imSet m k (.item .tbl))
      | _ => if fx.entOcc then (.bool false, m) else (.bool true, m)
    | some _ => (.bool true, m)
    | none => (.bool false, m)
  | .goi k n =>
    match d with
    -- only `InlineTable` itself has the method (`Table` and `dyn TableLike` do not)
    | .inline => goiStep fx m k n
    | _ => (.na, m)
  | .idx k =>
    match vis (imGet m k) with
    | some s => (.slot s, m)
    | none => (.panic, m)
  | .idxmut k =>
    match imGet m k with
    | some s => (.slot s, m)
    | none => (.slot .placeholder, imPush m k .placeholder)
  | .idxset k n =>
    match imGet m k with
    | some _ => (.unit, imSet m k (.item (.int n)))
    | none => (.unit, imPush m k (.item (.int n)))
  | .retain =>
    match d with
    | .table => (.unit, imRetain keepTable m)
    | .inline => (.unit, imRetain keepInline m)
    | _ => (.na, m)
  | .sort => (.unit, imSortKeys m)
  | .sortby =>
    match d with
    | .table => (.unit, imSortBy leTable m)
    | .inline => (.unit, imSortBy leInline m)
    | _ => (.na, m)
  | .extend args =>
    if d.isLike then (.na, m) else
    (.unit, imExtend m ((pairsOf args).map fun kn => (kn.1, Slot.item (.int kn.2))))
  | .push _ => (.na, m)
  | .repl _ _ => (.na, m)
  | .bad => (.na, m)

/-- run a history; results in order -/
def run (fx : Fix) (d : Dialect) : Items → List Op → List Ret × Items
  | m, [] => ([], m)
  | m, op :: ops =>
    let r := step fx d m op
    let rest := run fx d r.2 ops
    (r.1 :: rest.1, rest.2)

/-! ### printing -/

/-- key names: 0..3 are "a".."d", 4.. are "k00", "k01", … (string order = index order up to k99) -/
def keyName (k : Nat) : String :=
  if k < 4 then String.singleton (Char.ofNat (97 + k))
  else "k" ++ String.singleton (Char.ofNat (48 + (k - 4) / 10 % 10)) ++ String.singleton (Char.ofNat (48 + (k - 4) % 10))

def valText : Val → String
  | .int n => toString n
  | .tbl => "{}"

/-- `Table`'s `Display`: one `key = value` line per value item (`get_values` skips everything else) -/
def printTable : Items → String
  | [] => ""
  | (k, .item v) :: m => keyName k ++ " = " ++ valText v ++ "\n" ++ printTable m
  | (_, .placeholder) :: m => printTable m

def inlineBody : List (Nat × Val) → String
  | [] => ""
  | [(k, v)] => " " ++ keyName k ++ " = " ++ valText v ++ " "
  | (k, v) :: rest => " " ++ keyName k ++ " = " ++ valText v ++ "," ++ inlineBody rest

def valuesOf : Items → List (Nat × Val)
  | [] => []
  | (k, .item v) :: m => (k, v) :: valuesOf m
  | (_, .placeholder) :: m => valuesOf m

/-- `InlineTable`'s `Display` (`encode_table` over `get_values`) -/
def printInline (m : Items) : String := "{" ++ inlineBody (valuesOf m) ++ "}"

structure Final where
  len : Nat
  empty : Bool
  iter : List (Nat × Slot)
  gets : List (Option Slot)
  /-- `into_iter()` (`none`: the dialect has none) -/
  into : Option (List (Nat × Slot))
  print : String
  deriving DecidableEq, Repr

def observe (fx : Fix) (d : Dialect) (m : Items) : Final where
  len := dLen fx d m
  empty := dLen fx d m == 0
  iter := dIter fx d m
  gets := [0, 1, 2, 3].map (dGet fx d m)
  into := match d with
    | .table => some (if fx.intoIter then iterVis m else m)
    | .inline => some (iterVis m)
    | _ => none
  print := if d.isTable then printTable m else printInline m

/-! ## `Array` -/

/-- the decor of an array element: none set, `" "` prefix, `""` prefix -/
inductive Decor where
  | dflt | sp | nosp
  deriving DecidableEq, Repr

abbrev Arr := List (Nat × Decor)

/-- `value_op`'s decoration -/
def decorFor (a : Arr) : Decor := if a.isEmpty then .nosp else .sp

def ival (n : Nat) : Slot := .item (.int n)

def arrStep (a : Arr) : Op → Ret × Arr
  | .push n => (.unit, a ++ [(n, decorFor a)])
  | .ins i n =>
    match vinsert a i (n, decorFor a) with
    | some a' => (.unit, a')
    | none => (.panic, a)
  | .repl i n =>
    match a[i]? with
    | some old =>
      match vreplace a i (n, old.2) with
      | some r => (.opt (some (ival r.2.1)), r.1)
      | none => (.panic, a)
    | none => (.panic, a)
  | .rem i =>
    match vremove a i with
    | some r => (.opt (some (ival r.2.1)), r.1)
    | none => (.panic, a)
  | .get i => (.opt (a[i]?.map fun e => ival e.1), a)
  | .getmut i => (.opt (a[i]?.map fun e => ival e.1), a)
  | .len => (.nat a.length, a)
  | .empty => (.bool (a.length == 0), a)
  | .iter => (.vals (a.map (·.1)), a)
  | .clear => (.unit, [])
  | .retain => (.unit, a.filter fun e => e.1 % 2 == 0)
  | .sortby => (.unit, stableSort (fun x y => decide (x.1 ≤ y.1)) a)
  | .extend ns => (.unit, a ++ ns.map fun n => (n, Decor.dflt))
  | _ => (.na, a)

def arrRun : Arr → List Op → List Ret × Arr
  | a, [] => ([], a)
  | a, op :: ops =>
    let r := arrStep a op
    let rest := arrRun r.2 ops
    (r.1 :: rest.1, rest.2)

def elemText (first : Bool) (e : Nat × Decor) : String :=
  (match e.2 with
    | .sp => " "
    | .nosp => ""
    | .dflt => if first then "" else " ") ++ toString e.1

def arrBody (first : Bool) : Arr → String
  | [] => ""
  | e :: rest => (if first then "" else ",") ++ elemText first e ++ arrBody false rest

/-- `encode_array` -/
def printArr (a : Arr) : String := "[" ++ arrBody true a ++ "]"

/-! ## `ArrayOfTables` (each table holds `v = n`) -/

abbrev Aot := List Nat

def aotStep (a : Aot) : Op → Ret × Aot
  | .push n => (.unit, a ++ [n])
  | .rem i =>
    match vremove a i with
    | some r => (.unit, r.1)
    | none => (.panic, a)
  | .get i => (.opt (a[i]?.map ival), a)
  | .getmut i => (.opt (a[i]?.map ival), a)
  | .len => (.nat a.length, a)
  | .empty => (.bool (a.length == 0), a)
  | .iter => (.vals a, a)
  | .clear => (.unit, [])
  | .retain => (.unit, a.filter fun n => n % 2 == 0)
  | .extend ns => (.unit, a ++ ns)
  | _ => (.na, a)

def aotRun : Aot → List Op → List Ret × Aot
  | a, [] => ([], a)
  | a, op :: ops =>
    let r := aotStep a op
    let rest := aotRun r.2 ops
    (r.1 :: rest.1, rest.2)

def aotBody (first : Bool) : Aot → String
  | [] => ""
  | n :: rest => (if first then "" else ", ") ++ "{ v = " ++ toString n ++ " }" ++ aotBody false rest

/-- `self.clone().into_array().fmt(f)` -/
def printAot (a : Aot) : String := "[" ++ aotBody true a ++ "]"

/-! ## `toml::Map<String, Value>`: a wrapper around `BTreeMap` or (feature `preserve_order`) `IndexMap` -/

abbrev MapImpl := List (Nat × Nat)

/-- `BTreeMap::insert` -/
def btInsert : MapImpl → Nat → Nat → MapImpl × Option Nat
  | [], k, v => ([(k, v)], none)
  | e :: m, k, v =>
    if k < e.1 then ((k, v) :: e :: m, none)
    else if e.1 == k then ((e.1, v) :: m, some e.2)
    else
      let r := btInsert m k v
      (e :: r.1, r.2)

/-- `MapImpl::insert` -/
def mInsert (sorted : Bool) (m : MapImpl) (k v : Nat) : MapImpl × Option Nat :=
  if sorted then btInsert m k v else imInsert m k v

def mapStep (sorted : Bool) (m : MapImpl) : Op → Ret × MapImpl
  | .ins k n =>
    let r := mInsert sorted m k n
    (.opt (r.2.map ival), r.1)
  | .rem k =>
    -- `BTreeMap::remove` / `IndexMap::shift_remove`
    let r := imShiftRemove m k
    (.opt (r.2.map ival), r.1)
  | .get k => (.opt ((imGet m k).map ival), m)
  | .getmut k => (.opt ((imGet m k).map ival), m)
  | .gkv k => (.kv ((imGet m k).map fun n => (k, ival n)), m)
  | .has k => (.bool (imGet m k).isSome, m)
  | .len => (.nat m.length, m)
  | .empty => (.bool m.isEmpty, m)
  | .iter => (.pairs (m.map fun e => (e.1, ival e.2)), m)
  | .keys => (.keys (m.map (·.1)), m)
  | .values => (.vals (m.map (·.2)), m)
  | .clear => (.unit, [])
  | .entry k n =>
    match imGet m k with
    | some x => (.slot (ival x), m)
    | none => (.slot (ival n), (mInsert sorted m k n).1)
  | .entocc k => (.bool (imGet m k).isSome, m)
  | .idx k =>
    match imGet m k with
    | some x => (.slot (ival x), m)
    | none => (.panic, m)
  | .idxset k n =>
    match imGet m k with
    | some _ => (.unit, imSet m k n)
    | none => (.panic, m)
  | .retain => (.unit, imRetain (fun _ n => n % 2 == 0) m)
  | .extend args => (.unit, (pairsOf args).foldl (fun m kv => (mInsert sorted m kv.1 kv.2).1) m)
  | _ => (.na, m)

def mapRun (sorted : Bool) : MapImpl → List Op → List Ret × MapImpl
  | m, [] => ([], m)
  | m, op :: ops =>
    let r := mapStep sorted m op
    let rest := mapRun sorted r.2 ops
    (r.1 :: rest.1, rest.2)

/-- `toml::to_string(&map)`: `key = value` lines -/
def printMap : MapImpl → String
  | [] => ""
  | (k, n) :: m => keyName k ++ " = " ++ toString n ++ "\n" ++ printMap m

end TomlVerif.Model.Containers
