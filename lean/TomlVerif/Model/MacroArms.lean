/-! The model's pinned copy of `toml_internal!`: every arm in SOURCE ORDER (`pattern => expansion`, blanks
    normalised), the `toml!` macro and the functions of crates/toml/src/macros.rs, as they were when
    Model/Macro.lean was written and validated. Gen/CheckMacro.lean proves that tools/translate.py still reads
    exactly this text from /repo; a re-ordered, added, removed or edited arm or helper breaks that theorem, and
    the model has to be reviewed before this copy is regenerated (tools/gen_macro_arms.py). Implemented by
    (Model/Macro.lean):
      @toplevel          toplevel (key arms: keyPath, rewriteSignTop, firstDt [] · dtArms, value; header arms: headerPath, pushToml / headerTable)
      @topleveldatetime  toplevel → dtValue, insertToml
      @path              pathStr
      @value             value / parenValue / litValue
      @table             table (keyPath, rewriteSignComma, firstDt comma · dtArms, value)
      @tabledatetime     table → dtValue, insertToml
      @array             array (rewriteSignComma, firstDt comma · dtArms, value)
      @arraydatetime     array → dtValue
      @trailingcomma     withComma
-/
namespace TomlVerif.Model.Macro

def armHeads : List String := [
  -- @toplevel
  "(@toplevel $root:ident [$($path:tt)*]) => {}",
  "(@toplevel $root:ident [$($path:tt)*] $($($k:tt)-+).+ = - $v:tt $($rest:tt)*) => { $crate::toml_internal!(@toplevel $root [$($path)*] $($($k)-+).+ = (-$v) $($rest)*); }",
  "(@toplevel $root:ident [$($path:tt)*] $($($k:tt)-+).+ = + $v:tt $($rest:tt)*) => { $crate::toml_internal!(@toplevel $root [$($path)*] $($($k)-+).+ = ($v) $($rest)*); }",
  "(@toplevel $root:ident [$($path:tt)*] $($($k:tt)-+).+ = $yr:tt - $mo:tt - $dhr:tt : $min:tt : $sec:tt . $frac:tt - $tzh:tt : $tzm:tt $($rest:tt)*) => { $crate::toml_internal!(@topleveldatetime $root [$($path)*] $($($k)-+).+ = ($yr - $mo - $dhr : $min : $sec . $frac - $tzh : $tzm) $($rest)*); }",
  "(@toplevel $root:ident [$($path:tt)*] $($($k:tt)-+).+ = $yr:tt - $mo:tt - $day:tt $hr:tt : $min:tt : $sec:tt . $frac:tt - $tzh:tt : $tzm:tt $($rest:tt)*) => { $crate::toml_internal!(@topleveldatetime $root [$($path)*] $($($k)-+).+ = ($yr - $mo - $day T $hr : $min : $sec . $frac - $tzh : $tzm) $($rest)*); }",
  "(@toplevel $root:ident [$($path:tt)*] $($($k:tt)-+).+ = $yr:tt - $mo:tt - $dhr:tt : $min:tt : $sec:tt - $tzh:tt : $tzm:tt $($rest:tt)*) => { $crate::toml_internal!(@topleveldatetime $root [$($path)*] $($($k)-+).+ = ($yr - $mo - $dhr : $min : $sec - $tzh : $tzm) $($rest)*); }",
  "(@toplevel $root:ident [$($path:tt)*] $($($k:tt)-+).+ = $yr:tt - $mo:tt - $day:tt $hr:tt : $min:tt : $sec:tt - $tzh:tt : $tzm:tt $($rest:tt)*) => { $crate::toml_internal!(@topleveldatetime $root [$($path)*] $($($k)-+).+ = ($yr - $mo - $day T $hr : $min : $sec - $tzh : $tzm) $($rest)*); }",
  "(@toplevel $root:ident [$($path:tt)*] $($($k:tt)-+).+ = $yr:tt - $mo:tt - $dhr:tt : $min:tt : $sec:tt . $frac:tt $($rest:tt)*) => { $crate::toml_internal!(@topleveldatetime $root [$($path)*] $($($k)-+).+ = ($yr - $mo - $dhr : $min : $sec . $frac) $($rest)*); }",
  "(@toplevel $root:ident [$($path:tt)*] $($($k:tt)-+).+ = $yr:tt - $mo:tt - $day:tt $hr:tt : $min:tt : $sec:tt . $frac:tt $($rest:tt)*) => { $crate::toml_internal!(@topleveldatetime $root [$($path)*] $($($k)-+).+ = ($yr - $mo - $day T $hr : $min : $sec . $frac) $($rest)*); }",
  "(@toplevel $root:ident [$($path:tt)*] $($($k:tt)-+).+ = $yr:tt - $mo:tt - $dhr:tt : $min:tt : $sec:tt $($rest:tt)*) => { $crate::toml_internal!(@topleveldatetime $root [$($path)*] $($($k)-+).+ = ($yr - $mo - $dhr : $min : $sec) $($rest)*); }",
  "(@toplevel $root:ident [$($path:tt)*] $($($k:tt)-+).+ = $yr:tt - $mo:tt - $day:tt $hr:tt : $min:tt : $sec:tt $($rest:tt)*) => { $crate::toml_internal!(@topleveldatetime $root [$($path)*] $($($k)-+).+ = ($yr - $mo - $day T $hr : $min : $sec) $($rest)*); }",
  "(@toplevel $root:ident [$($path:tt)*] $($($k:tt)-+).+ = $yr:tt - $mo:tt - $day:tt $($rest:tt)*) => { $crate::toml_internal!(@topleveldatetime $root [$($path)*] $($($k)-+).+ = ($yr - $mo - $day) $($rest)*); }",
  "(@toplevel $root:ident [$($path:tt)*] $($($k:tt)-+).+ = $hr:tt : $min:tt : $sec:tt . $frac:tt $($rest:tt)*) => { $crate::toml_internal!(@topleveldatetime $root [$($path)*] $($($k)-+).+ = ($hr : $min : $sec . $frac) $($rest)*); }",
  "(@toplevel $root:ident [$($path:tt)*] $($($k:tt)-+).+ = $hr:tt : $min:tt : $sec:tt $($rest:tt)*) => { $crate::toml_internal!(@topleveldatetime $root [$($path)*] $($($k)-+).+ = ($hr : $min : $sec) $($rest)*); }",
  "(@toplevel $root:ident [$($path:tt)*] $($($k:tt)-+).+ = $v:tt $($rest:tt)*) => {{ $crate::macros::insert_toml( &mut $root, &[$($path)* $(&concat!($(\"-\", $crate::toml_internal!(@path $k),)+)[1..], )+], $crate::toml_internal!(@value $v)); $crate::toml_internal!(@toplevel $root [$($path)*] $($rest)*); }}",
  "(@toplevel $root:ident $oldpath:tt [[$($($path:tt)-+).+]] $($rest:tt)*) => { $crate::macros::push_toml( &mut $root, &[$(&concat!($(\"-\", $crate::toml_internal!(@path $path),)+)[1..],)+]); $crate::toml_internal!(@toplevel $root [$(&concat!($(\"-\", $crate::toml_internal!(@path $path),)+)[1..],)+] $($rest)*); }",
  "(@toplevel $root:ident $oldpath:tt [$($($path:tt)-+).+] $($rest:tt)*) => { $crate::macros::table_toml( &mut $root, &[$(&concat!($(\"-\", $crate::toml_internal!(@path $path),)+)[1..],)+]); $crate::toml_internal!(@toplevel $root [$(&concat!($(\"-\", $crate::toml_internal!(@path $path),)+)[1..],)+] $($rest)*); }",
  -- @topleveldatetime
  "(@topleveldatetime $root:ident [$($path:tt)*] $($($k:tt)-+).+ = ($($datetime:tt)+) $($rest:tt)*) => { $crate::macros::insert_toml( &mut $root, &[$($path)* $(&concat!($(\"-\", $crate::toml_internal!(@path $k),)+)[1..], )+], $crate::Value::Datetime(concat!($(stringify!($datetime)),+).parse().unwrap())); $crate::toml_internal!(@toplevel $root [$($path)*] $($rest)*); }",
  -- @path
  "(@path $ident:ident) => { stringify!($ident) }",
  "(@path $quoted:tt) => { $quoted }",
  -- @value
  "(@value { $($inline:tt)* }) => {{ let mut table = $crate::Value::Table($crate::value::Table::new()); $crate::toml_internal!(@trailingcomma (@table table) $($inline)*); table }}",
  "(@value [ $($inline:tt)* ]) => {{ let mut array = $crate::value::Array::new(); $crate::toml_internal!(@trailingcomma (@array array) $($inline)*); $crate::Value::Array(array) }}",
  "(@value (-nan)) => { $crate::Value::Float(::std::f64::NAN.copysign(-1.0)) }",
  "(@value (nan)) => { $crate::Value::Float(::std::f64::NAN.copysign(1.0)) }",
  "(@value nan) => { $crate::Value::Float(::std::f64::NAN.copysign(1.0)) }",
  "(@value (-inf)) => { $crate::Value::Float(::std::f64::NEG_INFINITY) }",
  "(@value (inf)) => { $crate::Value::Float(::std::f64::INFINITY) }",
  "(@value inf) => { $crate::Value::Float(::std::f64::INFINITY) }",
  "(@value $v:tt) => {{ let de = $crate::macros::IntoDeserializer::<$crate::de::Error>::into_deserializer($v); <$crate::Value as $crate::macros::Deserialize>::deserialize(de).unwrap() }}",
  -- @table
  "(@table $root:ident) => {}",
  "(@table $root:ident $($($k:tt)-+).+ = - $v:tt , $($rest:tt)*) => { $crate::toml_internal!(@table $root $($($k)-+).+ = (-$v) , $($rest)*); }",
  "(@table $root:ident $($($k:tt)-+).+ = + $v:tt , $($rest:tt)*) => { $crate::toml_internal!(@table $root $($($k)-+).+ = ($v) , $($rest)*); }",
  "(@table $root:ident $($($k:tt)-+).+ = $yr:tt - $mo:tt - $dhr:tt : $min:tt : $sec:tt . $frac:tt - $tzh:tt : $tzm:tt , $($rest:tt)*) => { $crate::toml_internal!(@tabledatetime $root $($($k)-+).+ = ($yr - $mo - $dhr : $min : $sec . $frac - $tzh : $tzm) $($rest)*); }",
  "(@table $root:ident $($($k:tt)-+).+ = $yr:tt - $mo:tt - $day:tt $hr:tt : $min:tt : $sec:tt . $frac:tt - $tzh:tt : $tzm:tt , $($rest:tt)*) => { $crate::toml_internal!(@tabledatetime $root $($($k)-+).+ = ($yr - $mo - $day T $hr : $min : $sec . $frac - $tzh : $tzm) $($rest)*); }",
  "(@table $root:ident $($($k:tt)-+).+ = $yr:tt - $mo:tt - $dhr:tt : $min:tt : $sec:tt - $tzh:tt : $tzm:tt , $($rest:tt)*) => { $crate::toml_internal!(@tabledatetime $root $($($k)-+).+ = ($yr - $mo - $dhr : $min : $sec - $tzh : $tzm) $($rest)*); }",
  "(@table $root:ident $($($k:tt)-+).+ = $yr:tt - $mo:tt - $day:tt $hr:tt : $min:tt : $sec:tt - $tzh:tt : $tzm:tt , $($rest:tt)*) => { $crate::toml_internal!(@tabledatetime $root $($($k)-+).+ = ($yr - $mo - $day T $hr : $min : $sec - $tzh : $tzm) $($rest)*); }",
  "(@table $root:ident $($($k:tt)-+).+ = $yr:tt - $mo:tt - $dhr:tt : $min:tt : $sec:tt . $frac:tt , $($rest:tt)*) => { $crate::toml_internal!(@tabledatetime $root $($($k)-+).+ = ($yr - $mo - $dhr : $min : $sec . $frac) $($rest)*); }",
  "(@table $root:ident $($($k:tt)-+).+ = $yr:tt - $mo:tt - $day:tt $hr:tt : $min:tt : $sec:tt . $frac:tt , $($rest:tt)*) => { $crate::toml_internal!(@tabledatetime $root $($($k)-+).+ = ($yr - $mo - $day T $hr : $min : $sec . $frac) $($rest)*); }",
  "(@table $root:ident $($($k:tt)-+).+ = $yr:tt - $mo:tt - $dhr:tt : $min:tt : $sec:tt , $($rest:tt)*) => { $crate::toml_internal!(@tabledatetime $root $($($k)-+).+ = ($yr - $mo - $dhr : $min : $sec) $($rest)*); }",
  "(@table $root:ident $($($k:tt)-+).+ = $yr:tt - $mo:tt - $day:tt $hr:tt : $min:tt : $sec:tt , $($rest:tt)*) => { $crate::toml_internal!(@tabledatetime $root $($($k)-+).+ = ($yr - $mo - $day T $hr : $min : $sec) $($rest)*); }",
  "(@table $root:ident $($($k:tt)-+).+ = $yr:tt - $mo:tt - $day:tt , $($rest:tt)*) => { $crate::toml_internal!(@tabledatetime $root $($($k)-+).+ = ($yr - $mo - $day) $($rest)*); }",
  "(@table $root:ident $($($k:tt)-+).+ = $hr:tt : $min:tt : $sec:tt . $frac:tt , $($rest:tt)*) => { $crate::toml_internal!(@tabledatetime $root $($($k)-+).+ = ($hr : $min : $sec . $frac) $($rest)*); }",
  "(@table $root:ident $($($k:tt)-+).+ = $hr:tt : $min:tt : $sec:tt , $($rest:tt)*) => { $crate::toml_internal!(@tabledatetime $root $($($k)-+).+ = ($hr : $min : $sec) $($rest)*); }",
  "(@table $root:ident $($($k:tt)-+).+ = $v:tt , $($rest:tt)*) => { $crate::macros::insert_toml( &mut $root, &[$(&concat!($(\"-\", $crate::toml_internal!(@path $k),)+)[1..], )+], $crate::toml_internal!(@value $v)); $crate::toml_internal!(@table $root $($rest)*); }",
  -- @tabledatetime
  "(@tabledatetime $root:ident $($($k:tt)-+).+ = ($($datetime:tt)*) $($rest:tt)*) => { $crate::macros::insert_toml( &mut $root, &[$(&concat!($(\"-\", $crate::toml_internal!(@path $k),)+)[1..], )+], $crate::Value::Datetime(concat!($(stringify!($datetime)),+).parse().unwrap())); $crate::toml_internal!(@table $root $($rest)*); }",
  -- @array
  "(@array $root:ident) => {}",
  "(@array $root:ident - $v:tt , $($rest:tt)*) => { $crate::toml_internal!(@array $root (-$v) , $($rest)*); }",
  "(@array $root:ident + $v:tt , $($rest:tt)*) => { $crate::toml_internal!(@array $root ($v) , $($rest)*); }",
  "(@array $root:ident $yr:tt - $mo:tt - $dhr:tt : $min:tt : $sec:tt . $frac:tt - $tzh:tt : $tzm:tt , $($rest:tt)*) => { $crate::toml_internal!(@arraydatetime $root ($yr - $mo - $dhr : $min : $sec . $frac - $tzh : $tzm) $($rest)*); }",
  "(@array $root:ident $yr:tt - $mo:tt - $day:tt $hr:tt : $min:tt : $sec:tt . $frac:tt - $tzh:tt : $tzm:tt , $($rest:tt)*) => { $crate::toml_internal!(@arraydatetime $root ($yr - $mo - $day T $hr : $min : $sec . $frac - $tzh : $tzm) $($rest)*); }",
  "(@array $root:ident $yr:tt - $mo:tt - $dhr:tt : $min:tt : $sec:tt - $tzh:tt : $tzm:tt , $($rest:tt)*) => { $crate::toml_internal!(@arraydatetime $root ($yr - $mo - $dhr : $min : $sec - $tzh : $tzm) $($rest)*); }",
  "(@array $root:ident $yr:tt - $mo:tt - $day:tt $hr:tt : $min:tt : $sec:tt - $tzh:tt : $tzm:tt , $($rest:tt)*) => { $crate::toml_internal!(@arraydatetime $root ($yr - $mo - $day T $hr : $min : $sec - $tzh : $tzm) $($rest)*); }",
  "(@array $root:ident $yr:tt - $mo:tt - $dhr:tt : $min:tt : $sec:tt . $frac:tt , $($rest:tt)*) => { $crate::toml_internal!(@arraydatetime $root ($yr - $mo - $dhr : $min : $sec . $frac) $($rest)*); }",
  "(@array $root:ident $yr:tt - $mo:tt - $day:tt $hr:tt : $min:tt : $sec:tt . $frac:tt , $($rest:tt)*) => { $crate::toml_internal!(@arraydatetime $root ($yr - $mo - $day T $hr : $min : $sec . $frac) $($rest)*); }",
  "(@array $root:ident $yr:tt - $mo:tt - $dhr:tt : $min:tt : $sec:tt , $($rest:tt)*) => { $crate::toml_internal!(@arraydatetime $root ($yr - $mo - $dhr : $min : $sec) $($rest)*); }",
  "(@array $root:ident $yr:tt - $mo:tt - $day:tt $hr:tt : $min:tt : $sec:tt , $($rest:tt)*) => { $crate::toml_internal!(@arraydatetime $root ($yr - $mo - $day T $hr : $min : $sec) $($rest)*); }",
  "(@array $root:ident $yr:tt - $mo:tt - $day:tt , $($rest:tt)*) => { $crate::toml_internal!(@arraydatetime $root ($yr - $mo - $day) $($rest)*); }",
  "(@array $root:ident $hr:tt : $min:tt : $sec:tt . $frac:tt , $($rest:tt)*) => { $crate::toml_internal!(@arraydatetime $root ($hr : $min : $sec . $frac) $($rest)*); }",
  "(@array $root:ident $hr:tt : $min:tt : $sec:tt , $($rest:tt)*) => { $crate::toml_internal!(@arraydatetime $root ($hr : $min : $sec) $($rest)*); }",
  "(@array $root:ident $v:tt , $($rest:tt)*) => { $root.push($crate::toml_internal!(@value $v)); $crate::toml_internal!(@array $root $($rest)*); }",
  -- @arraydatetime
  "(@arraydatetime $root:ident ($($datetime:tt)*) $($rest:tt)*) => { $root.push($crate::Value::Datetime(concat!($(stringify!($datetime)),+).parse().unwrap())); $crate::toml_internal!(@array $root $($rest)*); }",
  -- @trailingcomma
  "(@trailingcomma ($($args:tt)*)) => { $crate::toml_internal!($($args)*); }",
  "(@trailingcomma ($($args:tt)*) ,) => { $crate::toml_internal!($($args)* ,); }",
  "(@trailingcomma ($($args:tt)*) $last:tt) => { $crate::toml_internal!($($args)* $last ,); }",
  "(@trailingcomma ($($args:tt)*) $first:tt $($rest:tt)+) => { $crate::toml_internal!(@trailingcomma ($($args)* $first) $($rest)+); }"
]

def helperSrc : List String := [
  "macro_rules! toml { ($($toml:tt)+) => {{ let table = $crate::value::Table::new(); let mut root = $crate::Value::Table(table); $crate::toml_internal!(@toplevel root [] $($toml)+); match root { $crate::Value::Table(table) => table, _ => unreachable!(), } }}; }",
  "pub fn insert_toml(root: &mut Value, path: &[&str], value: Value) { *traverse(root, path) = value; }",
  "pub fn table_toml(root: &mut Value, path: &[&str]) { let target = traverse(root, path); if !target.is_table() { *target = Value::Table(Table::new()); } }",
  "pub fn push_toml(root: &mut Value, path: &[&str]) { let target = traverse(root, path); if !target.is_array() { *target = Value::Array(Array::new()); } target .as_array_mut() .unwrap() .push(Value::Table(Table::new())); }",
  "fn traverse<'a>(root: &'a mut Value, path: &[&str]) -> &'a mut Value { let mut cur = root; for &key in path { let cur1 = cur; let cur2 = if cur1.is_array() { cur1.as_array_mut().unwrap().last_mut().unwrap() } else { cur1 }; if !cur2.is_table() { *cur2 = Value::Table(Table::new()); } if !cur2.as_table().unwrap().contains_key(key) { let empty = Value::Table(Table::new()); cur2.as_table_mut().unwrap().insert(key.to_owned(), empty); } cur = cur2.as_table_mut().unwrap().get_mut(key).unwrap(); } cur }"
]

/-- the helper the `[table]` header arm calls; `insert_toml` assigns an EMPTY table (defect F8) -/
def headerFnName : String := "table_toml"

/-- does the `[table]` header arm keep an existing table? (`insert_toml` does not) -/
def headerKeeps : Bool := headerFnName != "insert_toml"

end TomlVerif.Model.Macro
