import TomlVerif.Spec.Classes
/-! Model of `crates/toml_write/src/string.rs`: metrics, offered styles, `write_toml_value`.
    Strings are byte lists (the Rust code iterates `as_bytes()`). -/
namespace TomlVerif.Model.Write
open TomlVerif

inductive Encoding where
  | literal | basic | mlLiteral | mlBasic
  deriving Repr, DecidableEq

/-- `c <= 0x1f || c == 0x7f` -/
def isCtlByte (b : Byte) : Bool := b ≤ 0x1F || b == 0x7F

structure ValueMetrics where
  maxSingle : Nat := 0
  maxDouble : Nat := 0
  escapeCodes : Bool := false
  escape : Bool := false
  newline : Bool := false
  deriving Repr, DecidableEq

/-- one iteration of the `for byte in s.as_bytes()` loop of `ValueMetrics::calculate`;
    state = (metrics, prev_single_quotes, prev_double_quotes). -/
def vmStep (st : ValueMetrics × Nat × Nat) (b : Byte) : ValueMetrics × Nat × Nat :=
  let (m, ps, pd) := st
  let (m, ps) := if b == 0x27 then ({ m with maxSingle := max m.maxSingle (ps + 1) }, ps + 1) else (m, 0)
  let (m, pd) := if b == 0x22 then ({ m with maxDouble := max m.maxDouble (pd + 1) }, pd + 1) else (m, 0)
  let m :=
    if b == 0x5C then { m with escape := true }
    else if b == 0x09 then m
    else if b == 0x0A then { m with newline := true }
    else if isCtlByte b then { m with escapeCodes := true }
    else m
  (m, ps, pd)

def valueMetrics (s : Bytes) : ValueMetrics := (s.foldl vmStep ({}, 0, 0)).1

structure KeyMetrics where
  unquoted : Bool := true
  singleQuotes : Bool := false
  doubleQuotes : Bool := false
  escapeCodes : Bool := false
  escape : Bool := false
  deriving Repr, DecidableEq

def isKeyBareByte (b : Byte) : Bool :=
  Spec.inR 0x61 0x7A b || Spec.inR 0x41 0x5A b || Spec.inR 0x30 0x39 b || b == 0x2D || b == 0x5F

def kmStep (m : KeyMetrics) (b : Byte) : KeyMetrics :=
  let m := if !isKeyBareByte b then { m with unquoted := false } else m
  if b == 0x27 then { m with singleQuotes := true }
  else if b == 0x22 then { m with doubleQuotes := true }
  else if b == 0x5C then { m with escape := true }
  else if b == 0x09 then m
  else if isCtlByte b then { m with escapeCodes := true }
  else m

def keyMetrics (s : Bytes) : KeyMetrics := s.foldl kmStep { unquoted := !s.isEmpty }

def hexUpper (n : Nat) : Byte := if n < 10 then UInt8.ofNat (0x30 + n) else UInt8.ofNat (0x37 + n)

/-- what the `match *b` of the escaped writer emits for a byte other than `"`:
    a two-byte escape, `\\u00XX` for the remaining controls, or the byte itself -/
def escNonQuote (ml : Bool) (b : Byte) : Bytes :=
  if b == 0x08 then [0x5C, 0x62]
  else if b == 0x09 then [0x5C, 0x74]
  else if b == 0x0A then (if !ml then [0x5C, 0x6E] else [0x0A])
  else if b == 0x0C then [0x5C, 0x66]
  else if b == 0x0D then [0x5C, 0x72]
  else if b == 0x5C then [0x5C, 0x5C]
  else if b ≤ 0x1F || b == 0x7F then
    [0x5C, 0x75, 0x30, 0x30, hexUpper (b.toNat / 16), hexUpper (b.toNat % 16)]
  else [b]

/-- the escaped branch of `write_toml_value`, fused into one pass: `seq` is `seq_double_quotes`
    of the current chunk (it restarts at 0 after every escape because the outer `while` restarts
    the inner `for`, and after every other byte because of the `else` branch). -/
def escBody (ml : Bool) : Nat → Bytes → Bytes
  | _, [] => []
  | seq, b :: s =>
    if b == 0x22 then
      if (if ml then 2 else 0) < seq + 1 then 0x5C :: 0x22 :: escBody ml 0 s
      else 0x22 :: escBody ml (seq + 1) s
    else escNonQuote ml b ++ escBody ml 0 s

def delimiter : Option Encoding → Bytes
  | some .literal => [0x27]
  | some .basic => [0x22]
  | some .mlLiteral => [0x27, 0x27, 0x27]
  | some .mlBasic => [0x22, 0x22, 0x22]
  | none => []

def isEscaped : Option Encoding → Bool
  | some .basic | some .mlBasic => true
  | _ => false

def isMl : Option Encoding → Bool
  | some .mlLiteral | some .mlBasic => true
  | _ => false

/-- `write_toml_value(decoded, encoding, newline, writer)` -/
def writeTomlValue (decoded : Bytes) (enc : Option Encoding) (newline : Bool) : Bytes :=
  delimiter enc ++ (if newline && isMl enc then [0x0A] else []) ++
    (if isEscaped enc then escBody (isMl enc) 0 decoded else decoded) ++ delimiter enc

/-- value styles of `TomlStringBuilder` -/
inductive VStyle where
  | default | literal | mlLiteral | basicPretty | mlBasicPretty | basic | mlBasic
  deriving Repr, DecidableEq

def vAsLiteral (m : ValueMetrics) : Option Encoding :=
  if m.escapeCodes || 0 < m.maxSingle || m.newline then none else some .literal
def vAsMlLiteral (m : ValueMetrics) : Option Encoding :=
  if m.escapeCodes || 2 < m.maxSingle then none else some .mlLiteral
def vAsBasicPretty (m : ValueMetrics) : Option Encoding :=
  if m.escapeCodes || m.escape || 0 < m.maxDouble || m.newline then none else some .basic
def vAsMlBasicPretty (m : ValueMetrics) : Option Encoding :=
  if m.escapeCodes || m.escape || 2 < m.maxDouble then none else some .mlBasic
def vAsDefault (m : ValueMetrics) : Encoding :=
  ((((vAsBasicPretty m).orElse fun _ => vAsLiteral m).orElse fun _ => vAsMlBasicPretty m).orElse
    fun _ => vAsMlLiteral m).getD (if m.newline then .mlBasic else .basic)

/-- the encoding chosen for a style, `none` = style refused -/
def valueEncoding (st : VStyle) (m : ValueMetrics) : Option Encoding :=
  match st with
  | .default => some (vAsDefault m)
  | .literal => vAsLiteral m
  | .mlLiteral => vAsMlLiteral m
  | .basicPretty => vAsBasicPretty m
  | .mlBasicPretty => vAsMlBasicPretty m
  | .basic => some .basic
  | .mlBasic => some .mlBasic

/-- the token written for a value in a style (`TomlStringBuilder::as_*` then `write_toml_value`) -/
def writeValue (st : VStyle) (s : Bytes) : Option Bytes :=
  let m := valueMetrics s
  (valueEncoding st m).map fun e => writeTomlValue s (some e) m.newline

inductive KStyle where
  | default | unquoted | literal | basicPretty | basic
  deriving Repr, DecidableEq

/-- outer `none` = refused; inner `none` = bare key -/
def kAsUnquoted (m : KeyMetrics) : Option (Option Encoding) := if m.unquoted then some none else none
def kAsLiteral (m : KeyMetrics) : Option (Option Encoding) :=
  if m.escapeCodes || m.singleQuotes then none else some (some .literal)
def kAsBasicPretty (m : KeyMetrics) : Option (Option Encoding) :=
  if m.escapeCodes || m.escape || m.doubleQuotes then none else some (some .basic)
def kAsDefault (m : KeyMetrics) : Option Encoding :=
  (((kAsUnquoted m).orElse fun _ => kAsBasicPretty m).orElse fun _ => kAsLiteral m).getD (some .basic)

def keyEncoding (st : KStyle) (m : KeyMetrics) : Option (Option Encoding) :=
  match st with
  | .default => some (kAsDefault m)
  | .unquoted => kAsUnquoted m
  | .literal => kAsLiteral m
  | .basicPretty => kAsBasicPretty m
  | .basic => some (some .basic)

def writeKey (st : KStyle) (s : Bytes) : Option Bytes :=
  (keyEncoding st (keyMetrics s)).map fun e => writeTomlValue s e false

end TomlVerif.Model.Write
