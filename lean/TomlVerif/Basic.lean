/-! Shared basics: bytes, hex, parser result type. Import-free (core only). -/

namespace TomlVerif

abbrev Byte := UInt8
abbrev Bytes := List UInt8

/-- winnow's `ModalResult`: `Ok`, `ErrMode::Backtrack`, `ErrMode::Cut`. -/
inductive Res (α : Type) where
  | ok (v : α) (rest : Bytes)
  | bt
  | cut
  deriving Repr, DecidableEq

namespace Res
def isOk {α} : Res α → Bool
  | ok _ _ => true
  | _ => false
def map {α β} (f : α → β) : Res α → Res β
  | ok v r => ok (f v) r
  | bt => bt
  | cut => cut
/-- `cut_err` -/
def cutErr {α} : Res α → Res α
  | bt => cut
  | r => r
end Res

def hexDigit (n : Nat) : Char :=
  if n < 10 then Char.ofNat (48 + n) else Char.ofNat (87 + n)

def hexOfBytes (bs : Bytes) : String :=
  String.ofList (bs.flatMap fun b => [hexDigit (b.toNat / 16), hexDigit (b.toNat % 16)])

def hexVal? (c : Char) : Option Nat :=
  if '0' ≤ c ∧ c ≤ '9' then some (c.toNat - 48)
  else if 'a' ≤ c ∧ c ≤ 'f' then some (c.toNat - 87)
  else if 'A' ≤ c ∧ c ≤ 'F' then some (c.toNat - 55)
  else none

def bytesOfHexAux : List Char → Bytes → Option Bytes
  | [], acc => some acc.reverse
  | [_], _ => none
  | a :: b :: rest, acc =>
    match hexVal? a, hexVal? b with
    | some x, some y => bytesOfHexAux rest (UInt8.ofNat (x * 16 + y) :: acc)
    | _, _ => none

/-- "-" denotes the empty byte string. -/
def bytesOfHex? (s : String) : Option Bytes :=
  if s == "-" then some [] else bytesOfHexAux s.toList []

def hexOut (bs : Bytes) : String := if bs.isEmpty then "-" else hexOfBytes bs

def strBytes (s : String) : Bytes := s.toUTF8.toList

end TomlVerif
